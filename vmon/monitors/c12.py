"""C12 — translation and complementing follow the genetic-code tables.

Shape B (boundary recorder + executable model).  The model of a genetic code is
the NCBI 64-character string (TCAG order) indexed with base-4 arithmetic; frames
are plain slices of the (reverse-complemented) string; stop handling is a small
function of the per-codon amino-acid list.  The model of a molecular type is a
hand-written IUPAC table (symbol -> base set) and set arithmetic.

Exhaustive part: every code x 64 codons x {old,new} object x {DNA,RNA} spelling,
every IUPAC symbol x {dna,rna,protein,protein_with_stop} x {old,new} moltype.
Random part: sequences of length 0-40 x codes x 6 frames x stop policies x entry
points (gc.translate, gc.sixframes, Sequence.get_translation/trim_stop_codon,
collection / alignment get_translation incl. gapped codons, cogent3.app.translate).
"""

import itertools
import random
import re

from vmon.core import Result, exc_mechanism

ID = "C12"
LEVEL = "exploration"
RULE = (
    "Exhaustive: each of the 27 NCBI codes x 64 codons x {old,new} GeneticCode x {DNA,RNA} spelling for gc[codon], "
    "is_stop, gc[aa], single-codon translate on both strands and the 192-nt all-codon sequence; every IUPAC symbol "
    "(and all ordered symbol pairs) x {dna,rna,protein,protein_with_stop} x {old,new} MolType for resolve / "
    "re-encode / complement. Random: seeded sequences of length 0-40 (codon-aware: open frames with terminal / "
    "internal stops on either strand, plus uniform strings) x one random code each x 6 frames x "
    "(include_stop,trim_stop,incomplete_ok) combinations x entry points. Oracle = pinned NCBI table string indexed "
    "by base-4 arithmetic on plain str slices. A case is non-trivial when the length is not divisible by 3, or the "
    "frame is on the minus strand, or the code is not the standard code (ID != 1); distinct = (entry point, code id, "
    "frame, length mod 3, stop policy). Symbol checks count as non-trivial for degenerate symbols; distinct = "
    "(operation, implementation, moltype, symbol). Histories: 3-10 entry-point calls (gapped / plain x RNA / DNA x old / "
    "new x sequence / container / app) on ONE code inside one process, in RNA-first, DNA-first and shuffled order; the "
    "shared genetic-code objects (stop list, every gc[codon], sense codons, synonyms, to_regex, get_stop_indices, "
    "anticodons) are compared with a snapshot from worker start after every history step and after every case; "
    "distinct = (previous step class, step class)."
)
LEVEL_TEXT = (
    "Every codon of every available genetic code is looked up through every lookup path of the old and new "
    "genetic-code objects and compared with the pinned NCBI table; every IUPAC symbol of every molecular type is "
    "complemented, resolved and re-encoded and compared with a hand-written IUPAC table. Frames, strands, stop "
    "policies and the sequence / collection / alignment / app entry points are compared with a string model on "
    "seeded random sequences, alone and in order-dependent histories on the same shared code objects, whose observable "
    "tables must stay as they were when the worker started. Exhaustive for the tables, sampled for sequences."
)
LEVEL_NOTE = (
    "held = held on the executions listed in the evidence; trusted: Python str slicing, the pinned copy of the NCBI "
    "tables and the hand-written IUPAC table inside the monitor"
)
TECHNIQUE = "runtime monitoring: boundary recorder + executable string/table model, exhaustive table enumeration"
ASSUMPTIONS = [
    "the NCBI translation tables pinned in the monitor (transl_table ids 1-33 as shipped, cross-checked old vs new module when written) are the published data",
    "IUPAC nucleotide / amino-acid ambiguity codes as hand-written in the monitor; '?' and '-' are cogent3's missing / gap symbols",
    "Python str slicing and reversal are the reference semantics for frames and strands",
    "genetic-code objects returned by get_code are process-wide singletons; cross-call state is judged against a snapshot "
    "taken in each worker before its first case",
    "the flag pair include_stop=True, trim_stop=True is not compared strictly (either reading accepted); gapped codons are "
    "only held to each implementation's documented symbol ('?' old, '-' new) with incomplete_ok=True",
    "new GeneticCode.translate documents its argument as DNA: RNA-spelled plain strings are not given to it (RNA goes through "
    "gc[codon], Sequence objects and index arrays)",
]
EXHAUSTIVE = {"quick": True, "thorough": True}
TIMEOUT = {"quick": 900, "thorough": 7200}
ENV = {"NUMBA_BOUNDSCHECK": "1"}
# a worker spends ~8 CPU-s importing cogent3 and loading the bounds-checked kernels before its first case; the quick
# tier is ~50 CPU-s of cases, so more than 6 workers cost more CPU than they save in wall time
MAX_JOBS = 6

# ---------------------------------------------------------------------------
# pinned published data

PINNED = {
    1: "FFLLSSSSYY**CC*WLLLLPPPPHHQQRRRRIIIMTTTTNNKKSSRRVVVVAAAADDEEGGGG",
    2: "FFLLSSSSYY**CCWWLLLLPPPPHHQQRRRRIIMMTTTTNNKKSS**VVVVAAAADDEEGGGG",
    3: "FFLLSSSSYY**CCWWTTTTPPPPHHQQRRRRIIMMTTTTNNKKSSRRVVVVAAAADDEEGGGG",
    4: "FFLLSSSSYY**CCWWLLLLPPPPHHQQRRRRIIIMTTTTNNKKSSRRVVVVAAAADDEEGGGG",
    5: "FFLLSSSSYY**CCWWLLLLPPPPHHQQRRRRIIMMTTTTNNKKSSSSVVVVAAAADDEEGGGG",
    6: "FFLLSSSSYYQQCC*WLLLLPPPPHHQQRRRRIIIMTTTTNNKKSSRRVVVVAAAADDEEGGGG",
    9: "FFLLSSSSYY**CCWWLLLLPPPPHHQQRRRRIIIMTTTTNNNKSSSSVVVVAAAADDEEGGGG",
    10: "FFLLSSSSYY**CCCWLLLLPPPPHHQQRRRRIIIMTTTTNNKKSSRRVVVVAAAADDEEGGGG",
    11: "FFLLSSSSYY**CC*WLLLLPPPPHHQQRRRRIIIMTTTTNNKKSSRRVVVVAAAADDEEGGGG",
    12: "FFLLSSSSYY**CC*WLLLSPPPPHHQQRRRRIIIMTTTTNNKKSSRRVVVVAAAADDEEGGGG",
    13: "FFLLSSSSYY**CCWWLLLLPPPPHHQQRRRRIIMMTTTTNNKKSSGGVVVVAAAADDEEGGGG",
    14: "FFLLSSSSYYY*CCWWLLLLPPPPHHQQRRRRIIIMTTTTNNNKSSSSVVVVAAAADDEEGGGG",
    15: "FFLLSSSSYY*QCC*WLLLLPPPPHHQQRRRRIIIMTTTTNNKKSSRRVVVVAAAADDEEGGGG",
    16: "FFLLSSSSYY*LCC*WLLLLPPPPHHQQRRRRIIIMTTTTNNKKSSRRVVVVAAAADDEEGGGG",
    21: "FFLLSSSSYY**CCWWLLLLPPPPHHQQRRRRIIMMTTTTNNNKSSSSVVVVAAAADDEEGGGG",
    22: "FFLLSS*SYY*LCC*WLLLLPPPPHHQQRRRRIIIMTTTTNNKKSSRRVVVVAAAADDEEGGGG",
    23: "FF*LSSSSYY**CC*WLLLLPPPPHHQQRRRRIIIMTTTTNNKKSSRRVVVVAAAADDEEGGGG",
    24: "FFLLSSSSYY**CCWWLLLLPPPPHHQQRRRRIIIMTTTTNNKKSSSKVVVVAAAADDEEGGGG",
    25: "FFLLSSSSYY**CCGWLLLLPPPPHHQQRRRRIIIMTTTTNNKKSSRRVVVVAAAADDEEGGGG",
    26: "FFLLSSSSYY**CC*WLLLAPPPPHHQQRRRRIIIMTTTTNNKKSSRRVVVVAAAADDEEGGGG",
    27: "FFLLSSSSYYQQCCWWLLLLPPPPHHQQRRRRIIIMTTTTNNKKSSRRVVVVAAAADDEEGGGG",
    28: "FFLLSSSSYYQQCCWWLLLLPPPPHHQQRRRRIIIMTTTTNNKKSSRRVVVVAAAADDEEGGGG",
    29: "FFLLSSSSYYYYCC*WLLLLPPPPHHQQRRRRIIIMTTTTNNKKSSRRVVVVAAAADDEEGGGG",
    30: "FFLLSSSSYYEECC*WLLLLPPPPHHQQRRRRIIIMTTTTNNKKSSRRVVVVAAAADDEEGGGG",
    31: "FFLLSSSSYYEECCWWLLLLPPPPHHQQRRRRIIIMTTTTNNKKSSRRVVVVAAAADDEEGGGG",
    32: "FFLLSSSSYY*WCC*WLLLLPPPPHHQQRRRRIIIMTTTTNNKKSSRRVVVVAAAADDEEGGGG",
    33: "FFLLSSSSYYY*CCWWLLLLPPPPHHQQRRRRIIIMTTTTNNKKSSSKVVVVAAAADDEEGGGG",
}
CODE_IDS = sorted(PINNED)

BASES = "TCAG"
CODONS = [a + b + c for a in BASES for b in BASES for c in BASES]  # own enumeration, TCAG order
COMP = {"A": "T", "C": "G", "G": "C", "T": "A"}

NUC_IUPAC = {
    "A": "A", "C": "C", "G": "G", "T": "T",
    "R": "AG", "Y": "CT", "S": "CG", "W": "AT", "K": "GT", "M": "AC",
    "B": "CGT", "D": "AGT", "H": "ACT", "V": "ACG", "N": "ACGT",
}  # fmt: skip
AMINO = "ACDEFGHIKLMNPQRSTUVWY"  # 20 + selenocysteine, as in cogent3's protein alphabet


def iupac(mt):
    """own table symbol -> frozenset of canonical states for a moltype name"""
    if mt in ("dna", "rna"):
        t = {k: frozenset(v) for k, v in NUC_IUPAC.items()}
        if mt == "rna":
            t = {k.replace("T", "U"): frozenset(c.replace("T", "U") for c in v) for k, v in t.items()}
        return t
    canon = AMINO + ("*" if mt == "protein_with_stop" else "")
    t = {c: frozenset(c) for c in canon}
    t["B"] = frozenset("DN")
    t["Z"] = frozenset("EQ")
    t["X"] = frozenset(canon)
    return t


def aa_of(table, codon):
    """amino acid of a DNA-spelled canonical codon by base-4 arithmetic into the NCBI string"""
    return table[BASES.index(codon[0]) * 16 + BASES.index(codon[1]) * 4 + BASES.index(codon[2])]


def rc_dna(s):
    return "".join(COMP[c] for c in reversed(s))


def xlate(table, s, frame=0):
    return "".join(aa_of(table, s[i : i + 3]) for i in range(frame, len(s) - 2, 3))


def six(table, s):
    r = rc_dna(s)
    return [xlate(table, x, f) for x in (s, r) for f in range(3)]


def spell(s, mt):
    return s.replace("T", "U") if mt == "rna" else s


FRAMES = [("+", 0), ("+", 1), ("+", 2), ("-", 0), ("-", 1), ("-", 2)]
POLICIES = [
    # include_stop, trim_stop, incomplete_ok
    (False, True, False),
    (False, True, True),
    (True, False, False),
    (False, False, False),
    (True, True, False),
    (True, True, True),
]


def pol_name(p):
    return f"stop={'incl' if p[0] else 'excl'},trim={int(p[1])},inc_ok={int(p[2])}"


# ---------------------------------------------------------------------------
# the stop-policy model


def codon_aas(table, s, partial_char):
    """per-codon amino acids of a DNA-spelled string that may contain '-' (complete triplets only)"""
    out = []
    for i in range(0, len(s) - 2, 3):
        c = s[i : i + 3]
        if c == "---":
            out.append("-")
        elif "-" in c:
            out.append(partial_char)
        else:
            out.append(aa_of(table, c))
    return out


def expect(table, s, policy, form, partial_char="?"):
    """What translating s (DNA spelling, may hold '-') under a stop policy may yield.

    form: 'removed' (a trimmed terminal stop disappears), 'dash' (it becomes '-', length kept),
    'seq' (removed for gap-free s, dash otherwise — the documented Sequence.trim_stop_codon behaviour)
    Returns dict(accept=set of str, reject=bool (AlphabetError demanded), reject_ok, refusal_ok, kept, trimmed, term)
    """
    include_stop, trim_stop, inc_ok = policy
    aas = codon_aas(table, s, partial_char)
    kept = "".join(aas)
    d = s.replace("-", "")
    l3 = len(d) % 3
    has_gap = "-" in s
    if form == "seq":
        form = "dash" if has_gap else "removed"
    term = l3 == 0 and len(d) >= 3 and aa_of(table, d[-3:]) == "*"
    trimmed = kept
    if term:
        ti = max(i for i, a in enumerate(aas) if a != "-")
        trimmed = kept[:ti] + ("-" if form == "dash" else "") + kept[ti + 1 :]
    e = dict(accept=set(), reject=False, reject_ok=False, refusal_ok=False, kept=kept, trimmed=trimmed, term=term)
    if has_gap and not inc_ok:
        # G: gapped codons are only held to each implementation's documented symbol with incomplete_ok=True; without
        # it a gapped codon may be rejected (new: any '-', old: partial codons) or translated as with incomplete_ok
        e["reject_ok"] = True
    if include_stop and trim_stop:
        # G: old keeps the terminal stop, new trims it; both readings accepted
        e["accept"] = {kept, trimmed}
        if l3 and not inc_ok:
            e["refusal_ok"] = True
        return e
    if include_stop:
        e["accept"] = {kept}
        return e
    if trim_stop:
        if l3 and not inc_ok:
            e["refusal_ok"] = True  # documented strict mode: length not divisible by 3
        if "*" in trimmed:
            if l3 and kept.endswith("*") and "*" not in kept[:-1]:
                # last complete codon of a length%3 != 0 sequence: terminal or internal is a matter of reading
                e["accept"] = {kept[:-1]}
                e["reject_ok"] = True
            else:
                e["reject"] = True
        else:
            e["accept"] = {trimmed}
        return e
    if "*" in kept:
        e["reject"] = True
    else:
        e["accept"] = {kept}
    return e


# ---------------------------------------------------------------------------
# real objects


def gc_obj(impl, cid):
    if impl == "old":
        from cogent3.core.genetic_code import get_code
    else:
        from cogent3.core.new_genetic_code import get_code
    return get_code(cid)


def mk_seq(s, mt, impl, name="x"):
    from cogent3 import make_seq

    return make_seq(s, name=name, moltype=mt, new_type=(impl == "new"))


def mk_container(kind, data, mt):
    from cogent3 import make_aligned_seqs, make_unaligned_seqs

    if kind == "coll-old":
        return make_unaligned_seqs(data, moltype=mt)
    if kind == "coll-new":
        return make_unaligned_seqs(data, moltype=mt, new_type=True)
    if kind == "aln-old":
        return make_aligned_seqs(data, moltype=mt, array_align=False)
    if kind == "arr-old":
        return make_aligned_seqs(data, moltype=mt, array_align=True)
    raise ValueError(kind)


def attempt(fn):
    try:
        return "ok", fn()
    except Exception as e:  # noqa: BLE001
        return "exc", e


def frame_label(strand, f):
    return f"{strand}{f}"


def nontrivial(cid, strand, length):
    return cid != 1 or strand == "-" or length % 3 != 0


# ---------------------------------------------------------------------------
# classification of wrong answers


def classify_translation(got, e, others):
    """structural class of a wrong translation; others = translations of the other frames of the same input"""
    if not isinstance(got, str):
        return "wrong-answer"
    if got in others and got not in e["accept"]:
        return "frame-shifted"
    if e["term"] and got == e["kept"] and e["kept"] not in e["accept"]:
        return "terminal-stop-not-trimmed"
    if e["term"] and got in (e["trimmed"], e["kept"][:-1]) and got not in e["accept"]:
        return "terminal-stop-trimmed-when-not-requested"
    if any(len(got) == len(a) for a in e["accept"]):
        return "wrong-amino-acid"
    return "wrong-length"


class Judge:
    """decides one observed outcome of a translation-like call against an expectation from expect()"""

    def __init__(self, res, replay_case, **common):
        self.res = res
        self.replay = replay_case
        self.common = common

    def witness(self, mech, **detail):
        self.res.witness(mech, **{**self.common, **detail, "replay_case": self.replay})

    def decide(self, entry, prefix, outcome, e, sig=None, others=(), special=None, **detail):
        """entry: counter name; prefix: mechanism prefix 'C12/<entry>/<impl>'; special(kind, value) -> mechanism | None"""
        res = self.res
        kind, val = outcome
        res.count("op:" + entry)
        if kind == "ok":
            res.evals += 1
            if sig is not None:
                res.sig(entry, *sig)
            if val in e["accept"]:
                if e["term"] and val == e["trimmed"] and val != e["kept"]:
                    res.count("outcome:terminal-stop-trimmed")
                elif "*" in str(val):
                    res.count("outcome:stop-kept")
                return True
            mech = special("ok", val) if special else None
            if mech is None:
                if not e["accept"]:
                    cls = "stop-not-rejected"
                    if e["term"] and val in (e["trimmed"], e["kept"][:-1]):
                        cls = "terminal-stop-trimmed-when-rejection-requested"
                else:
                    cls = classify_translation(val, e, others)
                mech = f"{prefix}/{cls}"
            self.witness(mech, entry=entry, got=val, expected=sorted(e["accept"]) or "AlphabetError (stop codon rejected)", **detail)
            return False
        name = type(val).__name__
        if name == "AlphabetError" and (e["reject"] or e["reject_ok"]):
            res.evals += 1
            if sig is not None:
                res.sig(entry, *sig)
            res.count("outcome:rejected")
            return True
        if name == "AlphabetError" and e["refusal_ok"]:
            res.refused += 1
            res.count("outcome:refused-strict-length")
            return True
        res.evals += 1
        mech = special("exc", val) if special else None
        if mech is None:
            cls = "valid-input-rejected" if name == "AlphabetError" else "unexpected-exception"
            mech = exc_mechanism(f"{prefix}/{cls}", val)
        self.witness(mech, entry=entry, error=repr(val)[:300], expected=sorted(e["accept"]) or "AlphabetError", **detail)
        return False


def simple(res, entry, mech, ok, replay, sig=None, **detail):
    res.evals += 1
    res.count("op:" + entry)
    if sig is not None:
        res.sig(entry, *sig)
    if not ok:
        res.witness(mech, entry=entry, replay_case=replay, **detail)
    return ok


# ---------------------------------------------------------------------------
# exhaustive: one genetic code


def check_table(res, cid):
    table = PINNED[cid]
    replay = {"kind": "table", "code": cid}
    nt = cid != 1
    all_codons = "".join(CODONS)
    stops = {c for c in CODONS if aa_of(table, c) == "*"}
    for impl in ("old", "new"):
        st, gc = attempt(lambda: gc_obj(impl, cid))
        if st == "exc":
            res.evals += 1
            res.witness(exc_mechanism(f"C12/table/{impl}/get_code", gc), code=cid, error=repr(gc), replay_case=replay)
            continue
        if impl == "old":
            simple(res, "table.code_sequence", "C12/table/old/code_sequence-differs-from-NCBI", gc.code_sequence == table, replay, code=cid, got=gc.code_sequence, expected=table)
        for i, codon in enumerate(CODONS):
            aa = table[i]
            for mt in ("dna", "rna"):
                sp = spell(codon, mt)
                st, got = attempt(lambda: gc[sp])
                if st == "exc":
                    res.evals += 1
                    res.witness(exc_mechanism(f"C12/table/{impl}/getitem", got), code=cid, codon=sp, replay_case=replay)
                    continue
                simple(res, f"gc[codon]/{impl}", f"C12/table/{impl}/getitem-wrong-amino-acid", got == aa, replay, ("getitem", impl, cid, mt) if nt else None, code=cid, codon=sp, got=got, expected=aa)
                st, got = attempt(lambda: gc.is_stop(sp))
                simple(res, f"gc.is_stop/{impl}", f"C12/table/{impl}/is_stop-wrong", st == "ok" and bool(got) == (aa == "*"), replay, None, code=cid, codon=sp, got=repr(got))
            # single-codon translation, plus and minus strand
            st, got = attempt(lambda: gc.translate(codon))
            simple(res, f"gc.translate/{impl}", f"C12/{impl}-gc/+-strand/wrong-amino-acid", st == "ok" and got == aa, replay, ("translate-codon", impl, cid) if nt else None, code=cid, codon=codon, got=repr(got), expected=aa)
            if impl == "new":
                anti = rc_dna(codon)
                st, got = attempt(lambda: gc.translate(anti, rc=True))
                simple(res, "gc.translate-rc/new", "C12/new-gc/--strand/wrong-amino-acid", st == "ok" and got == aa, replay, ("translate-anticodon", impl, cid), code=cid, dna=anti, rc=True, got=repr(got), expected=aa)
        # reverse lookups
        for aa in sorted(set(table)) + ["B", "J", "O"]:
            exp = {c for c in CODONS if aa_of(table, c) == aa}
            st, got = attempt(lambda: gc[aa])
            simple(res, f"gc[aa]/{impl}", f"C12/table/{impl}/synonyms-wrong", st == "ok" and set(got) == exp and len(list(got)) == len(exp), replay, ("synonyms", impl, cid) if nt else None, code=cid, aa=aa, got=repr(got), expected=sorted(exp))
        sense = {c for c in CODONS if c not in stops}
        if impl == "old":
            obs_sense, obs_stop = set(gc.sense_codons), set(gc["*"])
        else:
            obs_sense, obs_stop = set(gc.sense_codons), set(gc.stop_codons)
        simple(res, f"gc.sense_codons/{impl}", f"C12/table/{impl}/sense-stop-partition-wrong", obs_sense == sense and obs_stop == stops, replay, None, code=cid, got_stop=sorted(obs_stop), expected_stop=sorted(stops))
        st, got = attempt(lambda: set(gc.get_alphabet(include_stop=False)))
        simple(res, f"gc.get_alphabet/{impl}", f"C12/table/{impl}/codon-alphabet-wrong", st == "ok" and got == sense, replay, None, code=cid, got=repr(got)[:300])
        # the 192-nt sequence of all codons, every frame
        exp6 = six(table, all_codons)
        for f in range(3):
            for mt in ("dna", "rna") if impl == "old" else ("dna",):
                sp = spell(all_codons, mt)
                st, got = attempt(lambda: gc.translate(sp, f))
                simple(res, f"gc.translate/{impl}", f"C12/{impl}-gc/+-strand/wrong-amino-acid", st == "ok" and got == exp6[f], replay, ("translate-all-codons", impl, cid, f, mt) if nt else None, code=cid, dna="<all 64 codons>", start=f, got=repr(got), expected=exp6[f])
            if impl == "new":
                st, got = attempt(lambda: gc.translate(rc_dna(all_codons), f, rc=True))
                exp = xlate(table, all_codons, f)
                # minus frame f of rc(all) reads all[f:]
                simple(res, "gc.translate-rc/new", minus_mech(table, rc_dna(all_codons), f, got if st == "ok" else None), st == "ok" and got == exp, replay, ("translate-all-anticodons", impl, cid, f), code=cid, dna="<rc of all 64 codons>", start=f, rc=True, got=repr(got), expected=exp)
        # sequence objects over the all-codon string
        for mt in ("dna", "rna"):
            sp = spell(all_codons, mt)
            st, got = attempt(lambda: str(mk_seq(sp, mt, impl).get_translation(gc=cid, include_stop=True, trim_stop=False)))
            ok = st == "ok" and got == table
            if not ok and impl == "old" and mt == "rna" and st == "exc" and old_rna_unresolved(got):
                res.evals += 1
                res.count("op:seq.get_translation/old")
                res.witness(OLD_RNA_MECH, code=cid, seq="<all 64 codons, RNA>", error=repr(got)[:200], replay_case=replay)
                continue
            simple(res, f"seq.get_translation/{impl}", f"C12/seq.get_translation/{impl}/wrong-amino-acid", ok, replay, ("seq-all-codons", impl, cid, mt) if nt else None, code=cid, seq="<all 64 codons>", moltype=mt, got=repr(got)[:200], expected=table)
    res.count("codes-enumerated")
    res.sample({"code": cid, "table": table})


OLD_RNA_MECH = "C12/get_translation/old-rna/codons-unresolvable-against-dna-codon-alphabet"
EMPTY_MECH = "C12/has_terminal_stop/empty-sequence/raises-InvalidCodonError"
ALN_TRIM_MECH = "C12/alignment.get_translation/trim_stop-false-ignored"
RNA_TRIM_MECH = "C12/trim_stop_codons/rna/stop-pattern-spelled-as-dna"
BEST_FRAME_2STOP_MECH = "C12/app.best_frame/two-consecutive-terminal-stops-counted-as-one"
DOUBLE_TRIM_MECH = "C12/container.get_translation/consecutive-trailing-stops-all-trimmed"


def old_rna_unresolved(exc_or_text):
    """old Sequence.get_translation could not find an RNA-spelled codon in the (DNA-spelled) codon alphabet"""
    t = exc_or_text if isinstance(exc_or_text, str) else f"{type(exc_or_text).__name__}: {exc_or_text}"
    m = re.search(r"unresolvable codon '([^']*)'", t)
    return bool(m) and "U" in m.group(1).upper()


def empty_codon_error(exc_or_text):
    """the stop test was applied to the empty string: the sequence (or what is left after trimming / slicing) is empty"""
    t = exc_or_text if isinstance(exc_or_text, str) else f"{type(exc_or_text).__name__}: {exc_or_text}"
    return "InvalidCodonError" in t and "Codon or aa  has wrong length" in t


def strip_trailing_stops(kept, dash):
    """model of trimming applied repeatedly: every stop of the trailing run of stops (ignoring gaps) is trimmed"""
    out = list(kept)
    i = len(out) - 1
    n = 0
    while i >= 0 and out[i] in "*-":
        if out[i] == "*":
            out[i] = "-" if dash else ""
            n += 1
        i -= 1
    return "".join(out), n


def minus_mech(table, s, f, got):
    """mechanism for a wrong minus-strand answer of the new object: is it the plus-anchored frame?"""
    # model of the suspected fault: start and the length truncation applied on the plus strand before reversing
    d = s[f:]
    if len(d) % 3:
        d = d[: -(len(d) % 3)]
    plus_anchored = xlate(table, rc_dna(d))
    if got is not None and got == plus_anchored:
        return "C12/new-gc/--strand/frame-anchored-on-plus-strand"
    if got is not None and got in six(table, s):
        return "C12/new-gc/--strand/frame-shifted"
    return "C12/new-gc/--strand/wrong-translation"


def check_codes_available(res):
    from cogent3.core import genetic_code, new_genetic_code

    replay = {"kind": "codes"}
    for impl, mod in (("old", genetic_code), ("new", new_genetic_code)):
        ids = sorted(int(r[0]) for r in mod.available_codes().to_list())
        res.count("codes-available/" + impl, len(ids))
        for i in ids:
            if i not in PINNED:
                res.count("codes-unpinned")
        simple(res, f"available_codes/{impl}", f"C12/table/{impl}/available-codes-missing", set(CODE_IDS) <= set(ids), replay, None, got=ids, expected=CODE_IDS)


# ---------------------------------------------------------------------------
# exhaustive: one molecular type


def own_encode(table, states):
    for k, v in table.items():
        if v == frozenset(states):
            return k
    return None


def as_text(value, index_chars):
    """a complement / rc result in any of the forms the API hands back -> plain str (index arrays decoded with the
    moltype's published symbol order)"""
    import numpy

    if isinstance(value, str):
        return value
    if isinstance(value, (bytes, bytearray)):
        return bytes(value).decode("utf8")
    if isinstance(value, numpy.ndarray):
        if value.dtype.kind in "US":
            return "".join(str(c) for c in value.tolist())
        if value.dtype.kind == "S":
            return b"".join(value.tolist()).decode("utf8")
        return "".join(index_chars[int(i)] for i in value.tolist())
    if isinstance(value, (list, tuple)):
        return "".join(str(c) for c in value)
    return repr(value)


def check_complement_forms(res, m, mt, impl, x, own_comp, replay, containers=True):
    """complement / rc of x (any IUPAC symbols, gap, missing) through every call form the API offers, each compared
    with the base-set model"""
    import numpy

    pre = f"C12/moltype/{impl}/nucleic"
    ec = "".join(own_comp(c) for c in x)
    erc = ec[::-1]
    degenerate = any(c not in "ACGTU-?" for c in x)
    if impl == "new":
        index_chars = "".join(m.degen_gapped_alphabet)
        forms = {"str": x, "bytes": x.encode("utf8"), "array": numpy.array([index_chars.index(c) for c in x], dtype=numpy.uint8)}
    else:
        index_chars = ""
        forms = {"str": x, "list": list(x), "tuple": tuple(x)}

    def dec(entry, mech, got_state, exp, sigpart, **detail):
        st, got = got_state
        txt = as_text(got, index_chars) if st == "ok" else None
        if st == "exc":
            res.evals += 1
            res.count("op:" + entry)
            res.witness(exc_mechanism(mech, got), entry=entry, moltype=mt, seq=x, error=repr(got)[:200], expected=exp, replay_case=replay, **detail)
            return
        simple(res, entry, mech, txt == exp, replay, (entry, mt, sigpart) if degenerate else None, moltype=mt, seq=x, got=txt, got_raw=repr(got)[:200], expected=exp, **detail)

    for form, arg in forms.items():
        for op, exp in (("complement", ec), ("rc", erc)):
            mech = f"{pre}/{op}-wrong" if form == "str" else f"{pre}/{op}-wrong-in-{form}-form"
            dec(f"moltype.{op}/{impl}/{form}", mech, attempt(lambda: getattr(m, op)(arg)), exp, len(x) % 3, form=form)
        if form != "str" and len(x):
            # involution in this form
            st, got = attempt(lambda: m.rc(m.rc(arg)))
            dec(f"moltype.rc-rc/{impl}/{form}", f"{pre}/rc-involution-broken-in-{form}-form", (st, got), x, len(x) % 3, form=form)
    # sequence objects, read back in every form
    st, seq = attempt(lambda: mk_seq(x, mt, impl, name="s1"))
    if st == "exc":
        res.evals += 1
        res.witness(exc_mechanism(f"C12/make_seq/{impl}", seq), seq=x, moltype=mt, replay_case=replay)
        return
    readers = {"str": str, "array": numpy.array, "iter": lambda q: "".join(str(c) for c in q)}
    if impl == "new":
        readers["bytes"] = bytes
    derived = {}
    for op, exp in (("complement", ec), ("rc", erc)):
        st, d = attempt(lambda: getattr(seq, op)())
        if st == "exc":
            dec(f"seq.{op}/{impl}", f"C12/seq.{op}/{impl}", (st, d), exp, len(x) % 3)
            continue
        derived[op] = d
        for rname, reader in readers.items():
            mech = f"C12/seq.{op}/{impl}/wrong" if rname == "str" else f"C12/seq.{op}/{impl}/wrong-when-read-as-{rname}"
            dec(f"seq.{op}/{impl}/as-{rname}", mech, attempt(lambda: reader(d)), exp, len(x) % 3, read_as=rname)
        st, back = attempt(lambda: getattr(d, op)())
        for rname in ("str", "array"):
            mech = f"C12/seq.{op}/{impl}/involution-broken" + ("" if rname == "str" else f"-when-read-as-{rname}")
            dec(f"seq.{op}-{op}/{impl}/as-{rname}", mech, (st, back) if st == "exc" else attempt(lambda: readers[rname](back)), x, len(x) % 3, read_as=rname)
    if not containers or not len(x):
        return
    # collections / alignments built from the derived sequence objects, and container-level rc
    kinds = ["coll-new"] if impl == "new" else ["coll-old", "aln-old", "arr-old"]

    def row(c, kind):
        # Alignment.get_seq is documented to drop the gaps; get_gapped_seq is the row as aligned
        return c.get_gapped_seq("s1") if kind in ("aln-old", "arr-old") else c.get_seq("s1")

    for kind in kinds:
        for op, exp in (("complement", ec), ("rc", erc)):
            if op not in derived:
                continue
            st, c = attempt(lambda: mk_container(kind, {"s1": derived[op]}, mt))
            entry = f"{kind}-from-{op}-seq"
            if st == "exc":
                dec(entry, f"C12/{kind}.from-{op}-sequence", (st, c), exp, len(x) % 3)
                continue
            dec(entry + "/to_dict", f"C12/{kind}.from-{op}-sequence/wrong", attempt(lambda: dict_of(c)["s1"]), exp, len(x) % 3)
            dec(entry + "/get_seq-array", f"C12/{kind}.from-{op}-sequence/wrong-when-read-as-array", attempt(lambda: numpy.array(row(c, kind))), exp, len(x) % 3)
            if op == "rc":
                dec(entry + "/rc", f"C12/{kind}.from-rc-sequence/rc-does-not-restore", attempt(lambda: dict_of(c.rc())["s1"]), x, len(x) % 3)
        st, c = attempt(lambda: mk_container(kind, {"s1": x}, mt).rc())
        if st == "exc":
            dec(f"{kind}.rc", f"C12/{kind}.rc", (st, c), erc, len(x) % 3)
            continue
        dec(f"{kind}.rc/get_seq-str", f"C12/{kind}.rc/wrong", attempt(lambda: str(row(c, kind))), erc, len(x) % 3)
        dec(f"{kind}.rc/get_seq-array", f"C12/{kind}.rc/wrong-when-read-as-array", attempt(lambda: numpy.array(row(c, kind))), erc, len(x) % 3)
        if impl == "new":
            dec(f"{kind}.rc/get_seq-bytes", f"C12/{kind}.rc/wrong-when-read-as-bytes", attempt(lambda: bytes(row(c, kind))), erc, len(x) % 3)


def check_symbols(res, mt, impl, n_random, seed):
    if impl == "old":
        from cogent3.core.moltype import get_moltype
    else:
        from cogent3.core.new_moltype import get_moltype
    replay = {"kind": "symbols", "moltype": mt, "impl": impl, "n": n_random, "seed": seed}
    m = get_moltype(mt)
    tab = iupac(mt)
    nucleic = mt in ("dna", "rna")
    family = "nucleic" if nucleic else "protein"
    canon = [k for k, v in tab.items() if len(v) == 1 and k in v]
    degen = [k for k in tab if k not in canon]
    pre = f"C12/moltype/{impl}/{family}"

    def dec(op, ok, sym=None, **detail):
        return simple(res, f"moltype.{op}/{impl}", f"{pre}/{op}-wrong", ok, replay, (op, impl, mt, sym) if sym in degen else None, moltype=mt, symbol=sym, **detail)

    # inventory
    obs_canon = set(m.alphabet)
    if impl == "old":
        obs_degen = set(m.degenerates) - {"?"}
    else:
        obs_degen = set(m.ambiguities)
    dec("inventory", obs_canon == set(canon) and obs_degen == set(degen), got_canonical=sorted(obs_canon), got_degenerate=sorted(obs_degen))
    for s in canon + degen:
        states = tab[s]
        st, got = attempt(lambda: m.resolve_ambiguity(s))
        ok = st == "ok" and set(got) == set(states) and len(got) == len(states)
        dec("resolve_ambiguity", ok, s, got=repr(got), expected=sorted(states))
        for order in (sorted(states), sorted(states, reverse=True)):
            st, got = attempt(lambda: m.degenerate_from_seq("".join(order)))
            dec("degenerate_from_seq", st == "ok" and got == s, s, states="".join(order), got=repr(got), expected=s)
        if impl == "old":
            st, got = attempt(lambda: m.what_ambiguity(tuple(sorted(states))))
            dec("what_ambiguity", st == "ok" and got == s, s, got=repr(got), expected=s)
        # mutual inverses using only the real functions
        st, got = attempt(lambda: m.degenerate_from_seq("".join(m.resolve_ambiguity(s))))
        dec("encode-after-resolve", st == "ok" and got == s, s, got=repr(got), expected=s)
    # every state set that has a symbol: resolve(encode(S)) == S
    sets = {frozenset(v) for v in tab.values()}
    if nucleic:
        cb = sorted(c for c in canon)
        sets |= {frozenset(c) for r in range(1, 5) for c in itertools.combinations(cb, r)}
    for S in sorted(sets, key=lambda x: (len(x), sorted(x))):
        st, got = attempt(lambda: set(m.resolve_ambiguity(m.degenerate_from_seq("".join(sorted(S))))))
        sym = own_encode(tab, S)
        dec("resolve-after-encode", st == "ok" and got == set(S), sym, states=sorted(S), got=repr(got))
    # the gap symbol
    st, got = attempt(lambda: (tuple(m.resolve_ambiguity("-", allow_gap=True)), m.degenerate_from_seq("-")))
    dec("gap-symbol", st == "ok" and got == (("-",), "-"), None, got=repr(got))
    # multi-character motifs: every ordered pair of symbols
    syms = canon + degen if nucleic else degen + canon[:3]
    for a, b in itertools.product(syms, repeat=2):
        exp = {x + y for x in tab[a] for y in tab[b]}
        st, got = attempt(lambda: m.resolve_ambiguity(a + b))
        dec("resolve_ambiguity-pair", st == "ok" and set(got) == exp and len(got) == len(exp), None, motif=a + b, got=repr(got)[:200])
    rng = random.Random(seed)
    allsyms = canon + degen + ["-", "?"]
    if nucleic:
        comp_base = {"A": "U" if mt == "rna" else "T", "C": "G", "G": "C", "T": "A", "U": "A"}

        def own_comp(sym):
            if sym in "-?":
                return sym
            return own_encode(tab, {comp_base[b] for b in tab[sym]})

        for s in allsyms:
            exp = own_comp(s)
            st, got = attempt(lambda: m.complement(s))
            dec("complement", st == "ok" and got == exp, s if s in degen else None, got=repr(got), expected=exp)
            st, got = attempt(lambda: m.rc(s))
            dec("rc", st == "ok" and got == exp, s if s in degen else None, got=repr(got), expected=exp)
        whole = "".join(allsyms)
        exp = "".join(own_comp(c) for c in whole)
        # every call form (str / bytes / index array resp. list / tuple; Sequence read back as str / bytes / array;
        # containers built from complemented / reverse-complemented sequences) over the full degenerate alphabet
        for sym in allsyms:
            check_complement_forms(res, m, mt, impl, sym, own_comp, replay, containers=sym in degen)
        check_complement_forms(res, m, mt, impl, whole, own_comp, replay)
        check_complement_forms(res, m, mt, impl, whole[::-1] + whole, own_comp, replay)
        for op, e_ in (("complement", exp), ("rc", exp[::-1])):
            st, got = attempt(lambda: str(getattr(mk_seq(whole, mt, impl), op)()))
            dec(f"seq.{op}", st == "ok" and got == e_, None, seq=whole, got=repr(got), expected=e_)
        # three-symbol motifs (codons) sampled
        for _ in range(60):
            motif = "".join(rng.choice(canon + degen) for _ in range(3))
            exp3 = {x + y + z for x in tab[motif[0]] for y in tab[motif[1]] for z in tab[motif[2]]}
            st, got = attempt(lambda: m.resolve_ambiguity(motif))
            dec("resolve_ambiguity-codon", st == "ok" and set(got) == exp3 and len(got) == len(exp3), None, motif=motif, got=repr(got)[:200])
        # involution on random strings over every symbol
        for _ in range(n_random):
            L = rng.choice([0, 1, 2, 3]) if rng.random() < 0.15 else rng.randint(4, 40)
            x = "".join(rng.choice(allsyms) for _ in range(L))
            erc = "".join(own_comp(c) for c in reversed(x))
            sig = ("rc-involution", impl, mt, L % 3)
            st, got = attempt(lambda: (m.rc(x), m.rc(m.rc(x)), m.complement(m.complement(x))))
            simple(res, f"moltype.rc/{impl}", f"{pre}/rc-involution-broken", st == "ok" and got == (erc, x, x), replay, sig, moltype=mt, seq=x, got=repr(got)[:300], expected=[erc, x, x])
            st, got = attempt(lambda: (lambda q: (str(q.rc()), str(q.rc().rc()), str(q.complement().complement())))(mk_seq(x, mt, impl)))
            simple(res, f"seq.rc/{impl}", f"C12/seq.rc/{impl}/rc-involution-broken", st == "ok" and got == (erc, x, x), replay, sig, moltype=mt, seq=x, got=repr(got)[:300], expected=[erc, x, x])
            check_complement_forms(res, m, mt, impl, x, own_comp, replay, containers=rng.random() < 0.3)
            if L and rng.random() < 0.3:
                data = {"a": x, "b": erc}
                for kind in ("coll-old", "coll-new", "aln-old", "arr-old"):
                    if (kind.endswith("new")) != (impl == "new"):
                        continue
                    st, got = attempt(lambda: (lambda c: (dict_of(c.rc()), dict_of(c.rc().rc())))(mk_container(kind, data, mt)))
                    simple(res, f"{kind}.rc", f"C12/{kind}.rc/rc-involution-broken", st == "ok" and got == ({"a": erc, "b": x}, data), replay, sig, moltype=mt, data=data, got=repr(got)[:300])
    else:
        # complementing a protein is refused
        for s in allsyms[:5]:
            st, got = attempt(lambda: m.complement(s))
            if st == "exc" and isinstance(got, TypeError):
                res.refused += 1
                res.count("outcome:protein-complement-refused")
            else:
                res.evals += 1
                res.witness(f"{pre}/complement-of-protein-accepted", moltype=mt, symbol=s, got=repr(got), replay_case=replay)
    res.count(f"symbols-enumerated/{family}")
    res.sample({"moltype": mt, "impl": impl, "symbols": "".join(allsyms)})


def dict_of(c):
    return {str(k): str(v) for k, v in c.to_dict().items()}


# ---------------------------------------------------------------------------
# random: genetic-code objects


def to_index_array(s):
    import numpy

    return numpy.array([BASES.index(c) for c in s], dtype=numpy.uint8)


def check_gc(res, cid, s):
    """every genetic-code-object entry point on one canonical DNA-spelled string"""
    table = PINNED[cid]
    replay = {"kind": "one-gc", "code": cid, "s": s}
    L = len(s)
    exp6 = six(table, s)
    old, new = gc_obj("old", cid), gc_obj("new", cid)

    def sig(entry, strand, f):
        return (entry, cid, frame_label(strand, f), L % 3) if nontrivial(cid, strand, L) else None

    def rec(entry, strand, f, ok, mech, **detail):
        res.evals += 1
        res.count("op:" + entry)
        res.count(f"frame:{strand}{f}")
        res.count(f"lenmod3:{L % 3}")
        sg = sig(entry, strand, f)
        if sg:
            res.sig(*sg)
        if not ok:
            res.witness(mech, entry=entry, code=cid, dna=s, start=f, strand=strand, replay_case=replay, **detail)

    def plus_mech(impl, got, f):
        if isinstance(got, str) and got in exp6 and got != exp6[f]:
            return f"C12/{impl}-gc/+-strand/frame-shifted"
        if isinstance(got, str) and len(got) != len(exp6[f]):
            return f"C12/{impl}-gc/+-strand/wrong-length"
        return f"C12/{impl}-gc/+-strand/wrong-amino-acid"

    for f in range(3):
        for mt in ("dna", "rna"):
            sp = spell(s, mt)
            st, got = attempt(lambda: old.translate(sp, f))
            if st == "exc":
                if isinstance(got, ValueError) and L and f + 1 > L:
                    res.refused += 1  # documented: "Translation starts after end of RNA"
                    res.count("outcome:refused-start-after-end")
                else:
                    rec(f"old-gc.translate/{mt}", "+", f, False, exc_mechanism("C12/old-gc/+-strand", got), error=repr(got)[:200])
                continue
            rec(f"old-gc.translate/{mt}", "+", f, got == exp6[f], plus_mech("old", got, f), got=got, expected=exp6[f], spelling=mt)
        for form, arg in (("str", s), ("array", to_index_array(s))):
            st, got = attempt(lambda: new.translate(arg, f))
            if st == "exc":
                rec(f"new-gc.translate/{form}", "+", f, False, exc_mechanism("C12/new-gc/+-strand", got), error=repr(got)[:200], input_form=form)
            else:
                rec(f"new-gc.translate/{form}", "+", f, got == exp6[f], plus_mech("new", got, f), got=got, expected=exp6[f], input_form=form)
            st, got = attempt(lambda: new.translate(arg, f, rc=True))
            if st == "exc":
                rec(f"new-gc.translate-rc/{form}", "-", f, False, exc_mechanism("C12/new-gc/--strand", got), error=repr(got)[:200], input_form=form, rc=True)
            else:
                rec(f"new-gc.translate-rc/{form}", "-", f, got == exp6[3 + f], minus_mech(table, s, f, got), got=got, expected=exp6[3 + f], input_form=form, rc=True, reverse_complement=rc_dna(s))
    # G: the argument of the new GeneticCode.translate is documented as DNA ("dna"), so RNA-spelled *strings* are not
    # handed to it; RNA reaches the new object as Sequence objects / index arrays (check_seq, check_container)
    # six frames, new: iterable of (strand, start, translation)
    st, got = attempt(lambda: [tuple(x) for x in new.sixframes(s)])
    if st == "exc":
        rec("new-gc.sixframes", "-", 0, False, exc_mechanism("C12/new-gc/sixframes", got), error=repr(got)[:200])
    else:
        labels_ok = [tuple(x[:2]) for x in got] == FRAMES and all(len(x) == 3 for x in got)
        rec("new-gc.sixframes/labels", "+", 0, labels_ok, "C12/new-gc/sixframes/frame-labels-wrong", got=got)
        if labels_ok:
            for (strand, f), x, e_ in zip(FRAMES, got, exp6):
                mech = plus_mech("new", x[2], f) if strand == "+" else minus_mech(table, s, f, x[2])
                rec("new-gc.sixframes", strand, f, x[2] == e_, mech, got=x[2], expected=e_, via="sixframes", reverse_complement=rc_dna(s))
    # six frames, old: needs a sequence object (uses .rc())
    for simpl, mt in (("old", "dna"), ("old", "rna"), ("new", "dna"), ("new", "rna")):
        entry = f"old-gc.sixframes/{simpl}-{mt}-seq"
        st, got = attempt(lambda: list(old.sixframes(mk_seq(spell(s, mt), mt, simpl))))
        if st == "exc":
            if isinstance(got, ValueError) and 0 < L < 3:
                res.refused += 1
                res.count("outcome:refused-start-after-end")
            else:
                rec(entry, "-", 0, False, exc_mechanism("C12/old-gc/sixframes", got), error=repr(got)[:200], seq_impl=simpl, moltype=mt)
            continue
        if len(got) != 6:
            rec(entry, "-", 0, False, "C12/old-gc/sixframes/not-six-frames", got=got)
            continue
        for (strand, f), x, e_ in zip(FRAMES, got, exp6):
            mech = f"C12/old-gc/{strand}-strand/" + ("frame-shifted" if x in exp6 else "wrong-translation")
            rec(entry, strand, f, x == e_, mech, got=x, expected=e_, via="sixframes", seq_impl=simpl, moltype=mt)
    res.count("strings:gc")


# ---------------------------------------------------------------------------
# random: sequence objects


def seq_special(impl, mt, s_frame):
    """classifier for the two structural failure classes known to the model: RNA codons vs DNA codon alphabet (old),
    and the empty (or all-gap) sequence"""

    def special(kind, val):
        if kind != "exc":
            return None
        name = type(val).__name__
        if empty_codon_error(val):
            return EMPTY_MECH
        if impl == "old" and mt == "rna" and name == "AlphabetError" and old_rna_unresolved(val):
            return OLD_RNA_MECH
        return None

    return special


def check_seq(res, cid, s, mt, impl):
    """a Sequence built from s: six frames by real slicing / rc, every stop policy"""
    table = PINNED[cid]
    replay = {"kind": "one-seq", "code": cid, "s": s, "moltype": mt, "impl": impl}
    J = Judge(res, replay, code=cid, seq=spell(s, mt), moltype=mt, impl=impl)
    st, seq = attempt(lambda: mk_seq(spell(s, mt), mt, impl))
    if st == "exc":
        res.evals += 1
        J.witness(exc_mechanism(f"C12/make_seq/{impl}", seq), error=repr(seq))
        return
    exp6 = six(table, s)
    r = rc_dna(s)
    for strand, f in FRAMES:
        own = (s if strand == "+" else r)[f:]
        L = len(own)
        st, sub = attempt(lambda: (seq if strand == "+" else seq.rc())[f:])
        if st == "exc" or str(sub) != spell(own, mt):
            res.evals += 1
            J.witness(f"C12/seq-frame-view/{impl}/wrong-string", strand=strand, start=f, got=repr(sub)[:200], expected=spell(own, mt))
            continue
        others = set(exp6)
        special = seq_special(impl, mt, own)
        fl = frame_label(strand, f)
        nt = nontrivial(cid, strand, L)
        res.count(f"frame:{fl}")
        res.count(f"lenmod3:{L % 3}")
        # terminal stop detection / trimming
        term = L % 3 == 0 and L >= 3 and aa_of(table, own[-3:]) == "*"
        st, got = attempt(lambda: sub.has_terminal_stop(gc=cid))
        e_bool = dict(accept={term}, reject=False, reject_ok=False, refusal_ok=False, kept="", trimmed="", term=False)
        J.decide(f"seq.has_terminal_stop/{impl}", f"C12/seq.has_terminal_stop/{impl}", (st, got), e_bool, (cid, fl, L % 3) if nt else None, special=special, strand=strand, start=f)
        st, got = attempt(lambda: str(sub.trim_stop_codon(gc=cid)))
        e_trim = dict(accept={spell(own[:-3] if term else own, mt)}, reject=False, reject_ok=False, refusal_ok=False, kept=spell(own, mt), trimmed=spell(own[:-3], mt), term=term)
        J.decide(f"seq.trim_stop_codon/{impl}", f"C12/seq.trim_stop_codon/{impl}", (st, got), e_trim, (cid, fl, L % 3) if nt else None, special=special, strand=strand, start=f)
        for pol in POLICIES:
            e = expect(table, own, pol, "seq")
            guarded = pol[0] and pol[1]
            st, got = attempt(lambda: str(sub.get_translation(gc=cid, include_stop=pol[0], trim_stop=pol[1], incomplete_ok=pol[2])))
            entry = f"seq.get_translation/{impl}" + ("/guarded-flag-pair" if guarded else "")
            J.decide(entry, f"C12/seq.get_translation/{impl}", (st, got), e, (cid, fl, L % 3, pol_name(pol)) if nt and not guarded else None, others=others, special=special, strand=strand, start=f, policy=pol_name(pol), frame_string=spell(own, mt))
            res.count("policy:" + pol_name(pol))
    res.count(f"strings:seq/{impl}/{mt}")


# ---------------------------------------------------------------------------
# random: collections and alignments


def container_expect(table, data, pol, kind, partial_char):
    """combine per-row expectations; returns (e_rows, combined)"""
    aligned = kind in ("aln-old", "arr-old")
    rows = {}
    for n, s in data.items():
        rows[n] = expect(table, s, pol, "dash" if aligned else "seq", partial_char)
    comb = dict(reject=any(e["reject"] for e in rows.values()), reject_ok=any(e["reject_ok"] for e in rows.values()), refusal_ok=any(e["refusal_ok"] for e in rows.values()))
    return rows, comb


def seq_level_model(table, data, pol):
    """what per-row Sequence-level translation under policy pol would give: 'reject', 'unequal', or dict"""
    out = {}
    for n, s in data.items():
        e = expect(table, s, pol, "seq")
        if e["reject"] or (not e["accept"]):
            return "reject"
        if e["refusal_ok"]:
            return "reject"
        out[n] = sorted(e["accept"], key=len)[0]
    if len({len(v) for v in out.values()}) > 1:
        return "unequal"
    return out


def rna_trim_model(table, data):
    """model of alignment-level trimming whose stop pattern is spelled as DNA while the rows are RNA: only
    terminal stops without T/U are recognised (DNA spelling in, DNA spelling out)"""
    out = {}
    for n, s in data.items():
        d = s.replace("-", "")
        if expect(table, s, (False, True, True), "dash")["term"] and "T" not in d[-3:]:
            d_end = max(i for i, c in enumerate(s) if c != "-") + 1
            out[n] = s[: d_end - 3] + "-" * (len(s) - d_end + 3)
        else:
            out[n] = s
    return out


def check_container(res, cid, data, kind, mt):
    """data: name -> DNA-spelled string (may contain '-'); kind in coll-old / coll-new / aln-old / arr-old"""
    table = PINNED[cid]
    replay = {"kind": "one-container", "code": cid, "data": data, "container": kind, "moltype": mt}
    aligned = kind in ("aln-old", "arr-old")
    impl = "new" if kind.endswith("new") else "old"
    partial_char = "-" if impl == "new" else "?"
    spelled = {n: spell(s, mt) for n, s in data.items()}
    st, coll = attempt(lambda: mk_container(kind, spelled, mt))
    if st == "exc":
        res.evals += 1
        res.witness(exc_mechanism(f"C12/make-container/{kind}", coll), data=spelled, replay_case=replay, error=repr(coll)[:200])
        return
    gapped = any("-" in s for s in data.values())
    lens = sorted({len(s.replace("-", "")) % 3 for s in data.values()})
    nt = cid != 1 or lens != [0]
    cls = "gapped" if gapped else "plain"
    common = dict(code=cid, data=spelled, container=kind, replay_case=replay)

    def special_for(pol, rows):
        def special(k, val):
            name = type(val).__name__ if k == "exc" else None
            if k == "exc" and empty_codon_error(val):
                return EMPTY_MECH
            if k == "exc" and impl == "old" and mt == "rna" and name == "AlphabetError" and old_rna_unresolved(val):
                return OLD_RNA_MECH
            if k == "exc" and aligned and mt == "rna" and name == "AlphabetError" and not pol[0] and pol[1]:
                # model of "alignment-level trimming misses RNA-spelled stops": the missed stop is rejected by its row
                if seq_level_model(table, rna_trim_model(table, data), (False, False, pol[2])) == "reject":
                    return RNA_TRIM_MECH
            if aligned and not pol[0] and not pol[1]:
                # model of "trim_stop=False is not handed to the rows": rows are translated under (excl, trim)
                m = seq_level_model(table, data, (False, True, pol[2]))
                if k == "exc" and ((m == "reject" and name == "AlphabetError") or (m == "unequal" and name == "ValueError")):
                    return ALN_TRIM_MECH
                if k == "ok" and isinstance(m, dict):
                    m2 = {n: expect(table, s, (False, True, True), "dash")["accept"] | expect(table, s, (False, True, True), "seq")["accept"] for n, s in data.items()}
                    if all(val.get(n) in m2[n] for n in data):
                        return ALN_TRIM_MECH
            if aligned and mt == "rna" and not pol[0] and pol[1]:
                # model of "alignment-level trimming is a no-op for RNA": rows are trimmed one by one instead
                m = seq_level_model(table, rna_trim_model(table, data), pol)
                if (k == "ok" and val == m) or (k == "exc" and m == "unequal" and name == "ValueError"):
                    return RNA_TRIM_MECH
            if k == "ok" and not pol[0] and pol[1]:
                # model of "trimmed by the container, then again by each row"
                hit, rest_ok = False, True
                for n, s in data.items():
                    e = rows[n]
                    if val.get(n) in e["accept"]:
                        continue
                    dt, cnt = strip_trailing_stops(e["kept"], aligned or "-" in s)
                    if cnt >= 2 and val.get(n) == dt:
                        hit = True
                    else:
                        rest_ok = False
                if hit and rest_ok:
                    return DOUBLE_TRIM_MECH
            return None

        return special

    # terminal stops of the container
    terms = {n: expect(table, s, (False, True, True), "dash" if aligned else "seq") for n, s in data.items()}
    sig = (kind, cid, cls, tuple(lens)) if nt else None
    st, got = attempt(lambda: bool(coll.has_terminal_stop(gc=cid)))
    if st == "exc" and empty_codon_error(got):
        res.evals += 1
        res.count(f"op:{kind}.has_terminal_stop")
        res.witness(EMPTY_MECH, entry=f"{kind}.has_terminal_stop", error=repr(got)[:200], **common)
    else:
        simple(res, f"{kind}.has_terminal_stop", f"C12/{kind}.has_terminal_stop/wrong", st == "ok" and got == any(e["term"] for e in terms.values()), replay, sig, code=cid, data=spelled, got=repr(got)[:200])
    exp_trim = {}
    for n, s in data.items():
        if not terms[n]["term"]:
            exp_trim[n] = spelled[n]
            continue
        d_end = max(i for i, c in enumerate(s) if c != "-") + 1
        if aligned or "-" in s:
            exp_trim[n] = spelled[n][: d_end - 3] + "-" * (len(s) - d_end + 3)
        else:
            exp_trim[n] = spelled[n][:-3]
    st, got = attempt(lambda: dict_of(coll.trim_stop_codons(gc=cid)))
    if st == "exc" and empty_codon_error(got):
        res.evals += 1
        res.count(f"op:{kind}.trim_stop_codons")
        res.witness(EMPTY_MECH, entry=f"{kind}.trim_stop_codons", error=repr(got)[:200], **common)
    elif st == "ok" and aligned and mt == "rna" and got != exp_trim and got == {n: spell(v, mt) for n, v in rna_trim_model(table, data).items()}:
        res.evals += 1
        res.count(f"op:{kind}.trim_stop_codons")
        res.witness(RNA_TRIM_MECH, entry=f"{kind}.trim_stop_codons", got=got, expected=exp_trim, **common)
    else:
        simple(res, f"{kind}.trim_stop_codons", f"C12/{kind}.trim_stop_codons/wrong", st == "ok" and got == exp_trim, replay, sig, code=cid, data=spelled, got=repr(got)[:300], expected=exp_trim)

    for pol in POLICIES:
        rows, comb = container_expect(table, data, pol, kind, partial_char)
        guarded = pol[0] and pol[1]
        st, got = attempt(lambda: dict_of(coll.get_translation(gc=cid, include_stop=pol[0], trim_stop=pol[1], incomplete_ok=pol[2])))
        entry = f"{kind}.get_translation" + ("/guarded-flag-pair" if guarded else "")
        res.count("op:" + entry)
        res.count("policy:" + pol_name(pol))
        sig = (entry, cid, cls, tuple(lens), pol_name(pol)) if nt and not guarded else None
        special = special_for(pol, rows)
        detail = dict(entry=entry, policy=pol_name(pol), **common)
        expected = {n: sorted(rows[n]["accept"]) or "AlphabetError (stop codon rejected)" for n in data}
        if st == "ok":
            res.evals += 1
            if sig:
                res.sig(*sig)
            ok = not comb["reject"] and set(got) == set(data) and all(got[n] in rows[n]["accept"] for n in data)
            if aligned and ok and len({len(v) for v in got.values()}) > 1:
                ok = False
            if ok:
                if any(rows[n]["term"] and got[n] == rows[n]["trimmed"] != rows[n]["kept"] for n in data):
                    res.count("outcome:terminal-stop-trimmed")
                if any("*" in v for v in got.values()):
                    res.count("outcome:stop-kept")
                if gapped:
                    res.count("outcome:gapped-codon-translated")
                continue
            mech = special("ok", got)
            if mech is None:
                if comb["reject"]:
                    c = "stop-not-rejected"
                else:
                    bad = [n for n in data if got.get(n) not in rows[n]["accept"]]
                    c = classify_translation(got.get(bad[0]), rows[bad[0]], set()) if bad else "unequal-row-lengths"
                mech = f"C12/{kind}.get_translation/{c}"
            res.witness(mech, got=got, expected=expected, **detail)
            continue
        name = type(got).__name__
        if name == "AlphabetError" and (comb["reject"] or comb["reject_ok"]):
            res.evals += 1
            if sig:
                res.sig(*sig)
            res.count("outcome:rejected")
            continue
        if name == "AlphabetError" and comb["refusal_ok"]:
            res.refused += 1
            res.count("outcome:refused-strict-length")
            continue
        res.evals += 1
        mech = special("exc", got)
        if mech is None:
            c = "valid-input-rejected" if name == "AlphabetError" else "unexpected-exception"
            mech = exc_mechanism(f"C12/{kind}.get_translation/{c}", got)
        res.witness(mech, error=repr(got)[:300], expected=expected, **detail)
    res.count(f"containers:{kind}/{cls}")


# ---------------------------------------------------------------------------
# random: apps


def nc_exception_name(nc):
    """type name of the exception an app turned into NotCompleted (last line of the stored traceback)"""
    msg = str(getattr(nc, "message", ""))
    lines = [ln for ln in msg.strip().splitlines() if ln.strip()]
    if not lines:
        return ""
    head = lines[-1].split(":", 1)[0].strip()
    return head.split(".")[-1]


def check_apps(res, cid, data, kind, mt):
    from cogent3 import get_app
    from cogent3.app import translate as T
    from cogent3.app.composable import NotCompleted

    table = PINNED[cid]
    replay = {"kind": "one-app", "code": cid, "data": data, "container": kind, "moltype": mt}
    aligned = kind in ("aln-old", "arr-old")
    spelled = {n: spell(s, mt) for n, s in data.items()}
    coll = mk_container(kind, spelled, mt)
    lens = sorted({len(s) % 3 for s in data.values()})
    nt = cid != 1 or lens != [0]
    common = dict(code=cid, data=spelled, container=kind, moltype=mt, replay_case=replay)

    # translate_seqs == get_translation(include_stop=False, trim_stop=flag, incomplete_ok=False)
    for trim in (True, False):
        pol = (False, trim, False)
        entry = "app.translate_seqs"
        rows, comb = container_expect(table, data, pol, kind, "?")
        st, out = attempt(lambda: get_app("translate_seqs", moltype=mt, gc=cid, trim_terminal_stop=trim)(coll))
        res.count("op:" + entry)
        sig = (entry, cid, tuple(lens), pol_name(pol)) if nt else None
        if st == "exc":
            res.evals += 1
            res.witness(exc_mechanism("C12/app.translate_seqs", out), error=repr(out)[:200], trim_terminal_stop=trim, **common)
            continue
        if isinstance(out, NotCompleted):
            name = nc_exception_name(out)
            if name == "AlphabetError" and (comb["reject"] or comb["reject_ok"]):
                res.evals += 1
                if sig:
                    res.sig(*sig)
                res.count("outcome:rejected")
            elif name == "AlphabetError" and comb["refusal_ok"]:
                res.refused += 1
            else:
                res.evals += 1
                if empty_codon_error(str(out.message)):
                    mech = EMPTY_MECH
                elif mt == "rna" and name == "AlphabetError" and old_rna_unresolved(str(out.message)):
                    mech = OLD_RNA_MECH
                elif aligned and mt == "rna" and trim and name == "AlphabetError" and seq_level_model(table, rna_trim_model(table, data), (False, False, False)) == "reject":
                    mech = RNA_TRIM_MECH
                elif aligned and mt == "rna" and trim and name == "ValueError" and seq_level_model(table, rna_trim_model(table, data), pol) == "unequal":
                    mech = RNA_TRIM_MECH
                elif aligned and not trim and name in ("AlphabetError", "ValueError"):
                    mech = ALN_TRIM_MECH
                else:
                    mech = f"C12/app.translate_seqs/not-completed-{name or 'unknown'}"
                res.witness(mech, entry=entry, trim_terminal_stop=trim, message=str(out.message)[-400:], expected={n: sorted(rows[n]["accept"]) for n in data}, **common)
            continue
        got = dict_of(out)
        res.evals += 1
        if sig:
            res.sig(*sig)
        ok = not comb["reject"] and set(got) == set(data) and all(got[n] in rows[n]["accept"] for n in data)
        if not ok:
            if aligned and not trim:
                mech = ALN_TRIM_MECH
            elif aligned and mt == "rna":
                mech = RNA_TRIM_MECH
            elif trim and any(strip_trailing_stops(rows[n]["kept"], aligned)[1] >= 2 and got.get(n) == strip_trailing_stops(rows[n]["kept"], aligned)[0] for n in data):
                mech = DOUBLE_TRIM_MECH
            else:
                mech = "C12/app.translate_seqs/" + ("stop-not-rejected" if comb["reject"] else "wrong-translation")
            res.witness(mech, entry=entry, trim_terminal_stop=trim, got=got, expected={n: sorted(rows[n]["accept"]) or "AlphabetError" for n in data}, **common)

    # select_translatable
    degapped = {n: s.replace("-", "") for n, s in data.items()}

    def frame_output(s, strand, f, trim):
        x = s if strand == "+" else rc_dna(s)
        n = (len(x) - f) // 3
        sub = x[f : f + 3 * n]
        tr = xlate(table, sub)
        if "*" in tr[:-1]:
            return None
        if trim and tr.endswith("*"):
            sub = sub[:-3]
        return sub

    variants = [dict(), dict(allow_rc=True), dict(trim_terminal_stop=False), dict(frame=1), dict(frame=2), dict(frame=3, trim_terminal_stop=False)]
    for kw in variants:
        entry = "app.select_translatable/" + ("frame-given" if "frame" in kw else "best-frame")
        st, out = attempt(lambda: get_app("select_translatable", moltype=mt, gc=cid, **kw)(coll))
        res.count("op:" + entry)
        if st == "exc":
            res.evals += 1
            res.witness(exc_mechanism("C12/app.select_translatable", out), error=repr(out)[:200], options=kw, **common)
            continue
        if isinstance(out, NotCompleted):
            name = nc_exception_name(out)
            msg = str(out.message)
            none_selected = out.type == "FALSE" or (name == "TypeError" and "expected str instance" in msg)
            if not none_selected:
                res.evals += 1
                mech = EMPTY_MECH if empty_codon_error(msg) else f"C12/app.select_translatable/not-completed-{name or 'unknown'}"
                res.witness(mech, entry=entry, options=kw, message=msg[-400:], **common)
                continue
            got = {}
        else:
            got = dict_of(out)
        trim = kw.get("trim_terminal_stop", True)
        for n, s in degapped.items():
            L = len(s)
            if L < 3:
                continue
            res.evals += 1
            if "frame" in kw:
                f = kw["frame"] - 1
                exp = frame_output(s, "+", f, trim)
                cands = {exp} if exp is not None else set()
                must_include = exp is not None
                fl = frame_label("+", f)
            else:
                strands = "+-" if kw.get("allow_rc") else "+"
                cands = {frame_output(s, sd, f, trim) for sd in strands for f in range(3)} - {None}
                must_include = frame_output(s, "+", 0, trim) is not None
                fl = "best"
            if nt or fl != "+0":
                res.sig(entry, cid, fl, L % 3, f"trim={int(trim)}")
            if n in got:
                if spell_back(got[n]) not in cands:
                    mech = f"C12/{entry}/returned-sequence-not-a-clean-reading-frame"
                    if "frame" not in kw:
                        # model: best_frame discounts one trailing stop, then takes a second trailing stop for "the" terminal one
                        for sd in "+-" if kw.get("allow_rc") else "+":
                            for f in range(3):
                                x = s if sd == "+" else rc_dna(s)
                                sub = x[f : f + 3 * ((len(x) - f) // 3)]
                                tr = xlate(table, sub)
                                if tr.endswith("**") and "*" not in tr[:-2] and spell_back(got[n]) == (sub[:-3] if trim else sub):
                                    mech = BEST_FRAME_2STOP_MECH
                    res.witness(mech, options=kw, name=n, got=got[n], acceptable=sorted(cands), **common)
                else:
                    res.count("outcome:selected")
            elif must_include:
                res.witness(f"C12/{entry}/translatable-sequence-dropped", options=kw, name=n, acceptable=sorted(cands), **common)
            else:
                res.count("outcome:not-selected")

    # translate_frames / best_frame on the first two rows
    for n in list(data)[:2]:
        s = degapped[n]
        L = len(s)
        exp6 = six(table, s)
        st, seqobj = attempt(lambda: mk_seq(spell(s, mt), mt, "old", name=n))
        if st == "exc":
            continue
        for allow_rc in (False, True):
            entry = "app.translate_frames"
            exp = exp6 if allow_rc else exp6[:3]
            for how in ("seq", "str"):
                if how == "seq":
                    st, got = attempt(lambda: list(T.translate_frames(seqobj, gc=cid, allow_rc=allow_rc)))
                else:
                    st, got = attempt(lambda: list(T.translate_frames(spell(s, mt), moltype=mt, gc=cid, allow_rc=allow_rc)))
                res.count("op:" + entry)
                if st == "exc" and isinstance(got, ValueError) and 0 < L < 3:
                    res.refused += 1
                    continue
                res.evals += 1
                if nt or allow_rc:
                    res.sig(entry, cid, "six" if allow_rc else "three", L % 3)
                if st == "exc":
                    res.witness(exc_mechanism("C12/app.translate_frames", got), seq=s, allow_rc=allow_rc, **common)
                elif got != exp:
                    shifted = sorted(got) == sorted(exp)
                    res.witness("C12/app.translate_frames/" + ("frames-out-of-order" if shifted else "wrong-translation"), seq=s, allow_rc=allow_rc, got=got, expected=exp, **common)
            entry = "app.best_frame"
            st, got = attempt(lambda: T.best_frame(seqobj, gc=cid, allow_rc=allow_rc))
            res.count("op:" + entry)
            if L < 3:
                continue

            def clean(tr):
                return "*" not in (tr[:-1] if tr.endswith("*") else tr)

            if st == "exc":
                if isinstance(got, ValueError) and not clean(exp6[0]):
                    res.refused += 1
                    continue
                res.evals += 1
                mech = exc_mechanism("C12/app.best_frame", got) if not isinstance(got, ValueError) else "C12/app.best_frame/clean-first-frame-refused"
                res.witness(mech, seq=s, allow_rc=allow_rc, error=repr(got)[:200], **common)
                continue
            res.evals += 1
            idx = got - 1 if got > 0 else 2 - got  # -1,-2,-3 -> minus frames 0,1,2
            ok = (1 <= got <= 3 or (allow_rc and -3 <= got <= -1)) and clean(exp6[idx])
            res.sig(entry, cid, frame_label(*FRAMES[idx]) if ok else "?", L % 3)
            if not ok:
                two = 0 <= idx < 6 and exp6[idx].endswith("**") and "*" not in exp6[idx][:-2]
                res.witness(BEST_FRAME_2STOP_MECH if two else "C12/app.best_frame/frame-has-internal-stop", seq=s, allow_rc=allow_rc, got=got, six_frames=exp6, **common)
    res.count("containers:apps")


def spell_back(s):
    return s.replace("U", "T")


# ---------------------------------------------------------------------------
# gapped single sequences (whole-codon gaps, partial codons, trailing gaps after a terminal stop)


def trimmed_string(table, s, dash_always=False):
    """s with its terminal stop codon trimmed the documented way: removed for gap-free s, replaced by gaps otherwise"""
    if not expect(table, s, (False, True, True), "dash")["term"]:
        return s
    d_end = max(i for i, c in enumerate(s) if c != "-") + 1
    if dash_always or "-" in s:
        return s[: d_end - 3] + "-" * (len(s) - d_end + 3)
    return s[:-3]


def check_gapped_seq(res, cid, s, mt, impl):
    """a Sequence built from a DNA-spelled string that may hold gaps (frame 0 only)"""
    table = PINNED[cid]
    replay = {"kind": "one-gapped-seq", "code": cid, "s": s, "moltype": mt, "impl": impl}
    J = Judge(res, replay, code=cid, seq=spell(s, mt), moltype=mt, impl=impl)
    st, seq = attempt(lambda: mk_seq(spell(s, mt), mt, impl))
    if st == "exc":
        res.evals += 1
        J.witness(exc_mechanism(f"C12/make_seq/{impl}", seq), error=repr(seq))
        return
    partial_char = "-" if impl == "new" else "?"
    special = seq_special(impl, mt, s)
    l3 = len(s.replace("-", "")) % 3
    cls = "gapped" if "-" in s else "plain"
    nt = cid != 1 or l3 != 0 or cls == "gapped"
    term = expect(table, s, (False, True, True), "seq", partial_char)["term"]
    plain = dict(reject=False, reject_ok=False, refusal_ok=False, kept="", trimmed="", term=False)
    st, got = attempt(lambda: seq.has_terminal_stop(gc=cid))
    J.decide(f"seq-gapped.has_terminal_stop/{impl}", f"C12/seq.has_terminal_stop/{impl}", (st, got), dict(accept={term}, **plain), (cid, cls, mt, l3) if nt else None, special=special)
    st, got = attempt(lambda: str(seq.trim_stop_codon(gc=cid)))
    e_trim = dict(accept={spell(trimmed_string(table, s), mt)}, reject=False, reject_ok=False, refusal_ok=False, kept=spell(s, mt), trimmed=spell(trimmed_string(table, s), mt), term=term)
    J.decide(f"seq-gapped.trim_stop_codon/{impl}", f"C12/seq.trim_stop_codon/{impl}", (st, got), e_trim, (cid, cls, mt, l3) if nt else None, special=special)
    for pol in POLICIES:
        e = expect(table, s, pol, "seq", partial_char)
        guarded = pol[0] and pol[1]
        st, got = attempt(lambda: str(seq.get_translation(gc=cid, include_stop=pol[0], trim_stop=pol[1], incomplete_ok=pol[2])))
        entry = f"seq-gapped.get_translation/{impl}" + ("/guarded-flag-pair" if guarded else "")
        ok = J.decide(entry, f"C12/seq.get_translation/{impl}", (st, got), e, (cid, cls, mt, l3, pol_name(pol)) if nt and not guarded else None, special=special, policy=pol_name(pol))
        if ok and st == "ok" and cls == "gapped":
            res.count("outcome:gapped-codon-translated")
    res.count(f"strings:gapped-seq/{impl}/{mt}")


# ---------------------------------------------------------------------------
# cross-call state: the genetic-code objects are process-wide singletons; nothing a call does may change them

_SNAPSHOT = {}
_PROBE_DNA = "".join(CODONS)


def observe_code(impl, cid):
    """everything observable about a shared code object that later calls depend on"""
    gc = gc_obj(impl, cid)
    table = PINNED[cid]
    obs = {
        "stop-codon-list": list(gc["*"]) if impl == "old" else sorted(gc["*"]),
        "codon-table": "".join(gc[c] for c in CODONS),
        "sense-codons": sorted(gc.sense_codons),
        "synonyms": {aa: sorted(gc[aa]) for aa in sorted(set(table))},
    }
    if impl == "old":
        obs["code_sequence"] = gc.code_sequence
        obs["to_regex"] = gc.to_regex("M*W")
        obs["get_stop_indices"] = [gc.get_stop_indices(_PROBE_DNA, start=f) for f in range(3)]
        obs["anticodons"] = {aa: list(v) for aa, v in sorted(gc.anticodons.items())}
        obs["start-codons"] = sorted(gc.start_codons)
    else:
        obs["stop_codons"] = sorted(gc.stop_codons)
        obs["start-codons"] = sorted(gc.start_codons)
        obs["anticodons"] = list(gc.anticodons)
        obs["translate-all-codons"] = gc.translate(_PROBE_DNA)
    return obs


def take_snapshot():
    if _SNAPSHOT:
        return
    for impl in ("old", "new"):
        for cid in CODE_IDS:
            try:
                _SNAPSHOT[impl, cid] = observe_code(impl, cid)
            except Exception:  # noqa: BLE001  (a code that cannot be observed is reported by check_table)
                _SNAPSHOT[impl, cid] = None


def worker_init():
    take_snapshot()


def check_shared(res, replay, codes=None, **detail):
    """invariant: the shared code objects look exactly as they did when the worker started (and as the NCBI table says)"""
    take_snapshot()
    clean = True
    for impl in ("old", "new"):
        for cid in codes or CODE_IDS:
            snap = _SNAPSHOT.get((impl, cid))
            if snap is None:
                continue
            res.evals += 1
            res.count("op:shared-code-invariant")
            st, obs = attempt(lambda: observe_code(impl, cid))
            if st == "exc":
                clean = False
                res.witness(exc_mechanism("C12/shared-genetic-code-object-mutated/unobservable", obs), impl=impl, code=cid, error=repr(obs)[:200], replay_case=replay, **detail)
                continue
            for key, val in obs.items():
                if val != snap[key]:
                    clean = False
                    res.witness(f"C12/shared-genetic-code-object-mutated/{key}", impl=impl, code=cid, now=val, at_worker_start=snap[key], replay_case=replay, **detail)
            table = PINNED[cid]
            if obs["codon-table"] != table or set(obs["stop-codon-list"]) != set(stops_of(table)):
                clean = False
                res.witness("C12/shared-genetic-code-object-mutated/differs-from-NCBI-table", impl=impl, code=cid, codon_table=obs["codon-table"], stops=obs["stop-codon-list"], replay_case=replay, **detail)
    return clean


# ---------------------------------------------------------------------------
# order-dependent histories: many entry points, one code, one process


def run_step(res, cid, step):
    op = step["op"]
    if op == "gapped-seq":
        check_gapped_seq(res, cid, step["s"], step["mt"], step["impl"])
    elif op == "seq":
        check_seq(res, cid, step["s"], step["mt"], step["impl"])
    elif op == "container":
        check_container(res, cid, step["data"], step["container"], step["mt"])
    elif op == "gc":
        check_gc(res, cid, step["s"])
    elif op == "app":
        check_apps(res, cid, step["data"], step["container"], step["mt"])
    else:
        raise ValueError(f"unknown step {op!r}")


def step_label(step):
    bits = [step["op"], step.get("container") or step.get("impl", ""), step.get("mt", "")]
    txt = step.get("s") if "s" in step else "".join(step.get("data", {}).values())
    if txt is not None:
        bits.append("gapped" if "-" in txt else "plain")
    return "/".join(b for b in bits if b)


def run_history(res, cid, steps, order="given"):
    """steps on the SAME code objects, every call decided as usual, the shared objects re-inspected after every step"""
    replay = {"kind": "one-history", "code": cid, "steps": steps}
    done = []
    for i, step in enumerate(steps):
        run_step(res, cid, step)
        done.append(step_label(step))
        res.count("op:history-step")
        prev = done[-2].split("/")[0:3] if len(done) > 1 else ["start"]
        res.sig("history", cid != 1, "/".join(prev), done[-1])
        if not check_shared(res, replay, codes=[cid], step_index=i, step=step, history_so_far=list(done)):
            break  # first diverging step is the witness; later steps only repeat it
    res.count(f"history:{order}")


def gen_history(rng):
    """(cid, steps, order): gapped / plain x RNA / DNA x old / new x sequence / container entry points on one code"""
    cid = rng.choice([c for c in CODE_IDS if stops_of(PINNED[c])])
    table = PINNED[cid]
    g = None
    for _ in range(20):
        rows = gen_rows(rng, table, True, True)
        if max(len(v) for v in rows.values()) > 60:
            continue
        cands = [v for v in rows.values() if "-" in v and expect(table, v, (False, True, True), "dash")["term"]]
        if cands:
            g = rng.choice(cands)
            break
    if g is None:
        sense = [c for c in CODONS if aa_of(table, c) != "*"]
        g = rng.choice(sense) + "---" + rng.choice(stops_of(table)) + "---"
        rows = {"s0": g, "s1": rng.choice(sense) * 4}
    plain_rows = gen_rows(rng, table, False, False)
    plain_rows = {k: v[:60] for k, v in plain_rows.items()}
    u = gen_string(rng, table)[:45]
    rna_first = {"op": "gapped-seq", "s": g, "mt": "rna", "impl": "old"}
    dna_same = {"op": "gapped-seq", "s": g, "mt": "dna", "impl": "old"}
    pool = [
        {"op": "gapped-seq", "s": g, "mt": "rna", "impl": "new"},
        {"op": "gapped-seq", "s": g, "mt": "dna", "impl": "new"},
        {"op": "container", "data": rows, "container": rng.choice(["aln-old", "arr-old"]), "mt": "dna"},
        {"op": "container", "data": rows, "container": rng.choice(["aln-old", "arr-old"]), "mt": "rna"},
        {"op": "container", "data": rows, "container": "coll-old", "mt": "rna"},
        {"op": "container", "data": rows, "container": "coll-old", "mt": "dna"},
        {"op": "container", "data": rows, "container": "coll-new", "mt": rng.choice(["dna", "rna"])},
        {"op": "container", "data": plain_rows, "container": rng.choice(["coll-old", "coll-new"]), "mt": rng.choice(["dna", "rna"])},
        {"op": "seq", "s": u, "mt": rng.choice(["dna", "rna"]), "impl": rng.choice(["old", "new"])},
        {"op": "gc", "s": u},
        {"op": "app", "data": plain_rows, "container": "coll-old", "mt": rng.choice(["dna", "rna"])},
    ]
    rng.shuffle(pool)
    extra = pool[: rng.randint(3, 6)]
    order = rng.choice(["rna-first", "dna-first", "shuffled"])
    if order == "rna-first":
        steps = [rna_first, dna_same] + extra + [dna_same]
    elif order == "dna-first":
        steps = [dna_same, rna_first] + extra + [dna_same, rna_first]
    else:
        steps = extra + [rna_first, dna_same]
        rng.shuffle(steps)
        steps.append(dna_same)
    return cid, steps, order


# ---------------------------------------------------------------------------
# generators (expanded inside the worker from a seed)


def stops_of(table):
    return [c for c in CODONS if aa_of(table, c) == "*"]


def gen_string(rng, table):
    """length 0-40, codon-aware: open frame with terminal / internal stops on a random strand and frame, or uniform"""
    r = rng.random()
    if r < 0.12:
        L = rng.randint(0, 5)
    elif r < 0.18:
        # long sequences around the 256-codon mark (index arrays change integer type with size) and beyond
        L = rng.choice([3 * 255, 3 * 256, 3 * 256 + 1, 3 * 257 + 2, 3 * rng.randint(258, 420) + rng.randrange(3)])
    else:
        L = rng.randint(6, 40)
    stops = stops_of(table)
    sense = [c for c in CODONS if c not in stops]
    mode = rng.random()
    s = [rng.choice("ACGT") for _ in range(L)]
    if mode < 0.6 and L >= 3:
        f = rng.randrange(3)
        n = (L - f) // 3
        for k in range(n):
            s[f + 3 * k : f + 3 * k + 3] = rng.choice(sense)
        if n and stops and rng.random() < 0.6:
            s[f + 3 * (n - 1) : f + 3 * n] = rng.choice(stops)
        if n > 1 and stops and rng.random() < 0.2:
            k = rng.randrange(n - 1)
            s[f + 3 * k : f + 3 * k + 3] = rng.choice(stops)
    s = "".join(s)
    if rng.random() < 0.5:
        s = rc_dna(s)  # the designed frame now lies on the minus strand
    return s


def gen_two_stop(rng, table):
    """frame 0 is open and ends in TWO consecutive stop codons; the other plus frames hold at least two stops each, so a
    frame chooser cannot simply prefer them"""
    stops = stops_of(table)
    if not stops:
        return None
    sense = [c for c in CODONS if c not in stops]
    for _ in range(3000):
        s = "".join(rng.choice(sense) for _ in range(rng.randint(12, 30))) + rng.choice(stops) + rng.choice(stops)
        if all(xlate(table, s, f).count("*") >= 2 for f in (1, 2)):
            return s
    return None


def gen_rows(rng, table, aligned, gapped):
    """2-4 rows for a collection / alignment, frame 0"""
    stops = stops_of(table)
    sense = [c for c in CODONS if c not in stops]
    nrows = rng.randint(2, 4)
    ncod = rng.randint(1, 8) if rng.random() > 0.05 else rng.choice([255, 256, 257, 300])
    tail = rng.choice([0, 0, 0, 1, 2]) if not gapped else 0
    mode = rng.choice(["all-term", "some-term", "no-term", "some-term", "internal"]) if stops else "no-term"
    partial = gapped and rng.random() < 0.35
    if partial:
        mode = "no-term"
    data = {}
    for i in range(nrows):
        n = ncod if (aligned or ncod > 8) else rng.randint(0 if rng.random() < 0.05 else 1, 8)
        cod = [rng.choice(sense) for _ in range(n)]
        t = tail if aligned else rng.choice([0, 0, 1, 2])
        if gapped:
            t = 0
        has_term = mode == "all-term" or (mode in ("some-term", "internal") and rng.random() < 0.5)
        if has_term and n:
            cod[-1] = rng.choice(stops)
        if mode == "internal" and n > 1 and rng.random() < 0.5:
            cod[rng.randrange(n - 1)] = rng.choice(stops)
        if gapped and n:
            if aligned and has_term and n > 1 and rng.random() < 0.5:
                # terminal stop followed by trailing gap codons: move the stop left
                k = rng.randint(1, n - 1)
                cod = cod[: k - 1] + [cod[-1]] + ["---"] * (n - k)
            for k in range(len(cod)):
                if rng.random() < 0.2 and cod[k] not in stops:
                    cod[k] = "---"
            if partial:
                k = rng.randrange(len(cod))
                if cod[k] not in stops:
                    c = list(rng.choice(sense))
                    for p in rng.sample(range(3), rng.choice([1, 2])):
                        c[p] = "-"
                    cod[k] = "".join(c)
            if aligned and rng.random() < 0.04:
                cod = ["---"] * len(cod)  # an all-gap row
        data[f"s{i}"] = "".join(cod) + "".join(rng.choice("ACGT") for _ in range(t))
    if aligned:
        L = max(len(v) for v in data.values())
        data = {k: v + "-" * (L - len(v)) for k, v in data.items()}
    return data


def gen_cases(rng, tier):
    quick = tier == "quick"
    cases = [{"kind": "codes"}]
    for cid in CODE_IDS:
        cases.append({"kind": "table", "code": cid})
    for mt in ("dna", "rna", "protein", "protein_with_stop"):
        for impl in ("old", "new"):
            for _ in range(1 if quick else 6):
                cases.append({"kind": "symbols", "moltype": mt, "impl": impl, "n": 120 if quick else 400, "seed": rng.randrange(2**32)})
    n_gc, n_seq, n_cont, n_app = (10, 20, 16, 10) if quick else (600, 1600, 1000, 400)
    for _ in range(n_gc):
        cases.append({"kind": "gc", "seed": rng.randrange(2**32), "n": 30})
    for _ in range(n_seq):
        cases.append({"kind": "seq", "seed": rng.randrange(2**32), "n": 6})
    for _ in range(n_cont):
        cases.append({"kind": "container", "seed": rng.randrange(2**32), "n": 12})
    for _ in range(n_app):
        cases.append({"kind": "app", "seed": rng.randrange(2**32), "n": 4})
    for _ in range(12 if quick else 400):
        cases.append({"kind": "history", "seed": rng.randrange(2**32), "n": 4})
    return cases


SEQ_VARIANTS = [("dna", "old"), ("dna", "new"), ("rna", "old"), ("rna", "new")]
CONTAINER_KINDS = ["coll-old", "coll-new", "aln-old", "arr-old"]


def run_case(case):
    take_snapshot()
    res = Result()
    _run_case(res, case)
    # invariant after every case: no call left a mark on the shared genetic-code objects
    check_shared(res, case, after_case=case.get("kind"))
    return res


def _run_case(res, case):
    kind = case["kind"]
    if kind == "codes":
        check_codes_available(res)
    elif kind == "table":
        check_table(res, case["code"])
    elif kind == "symbols":
        check_symbols(res, case["moltype"], case["impl"], case["n"], case["seed"])
    elif kind == "gc":
        rng = random.Random(case["seed"])
        for _ in range(case["n"]):
            cid = rng.choice(CODE_IDS)
            s = gen_string(rng, PINNED[cid])
            check_gc(res, cid, s)
        res.sample({"kind": "gc", "code": cid, "dna": s})
    elif kind == "seq":
        rng = random.Random(case["seed"])
        for _ in range(case["n"]):
            cid = rng.choice(CODE_IDS)
            s = gen_string(rng, PINNED[cid])
            for mt, impl in SEQ_VARIANTS:
                check_seq(res, cid, s, mt, impl)
        res.sample({"kind": "seq", "code": cid, "dna": s})
    elif kind == "container":
        rng = random.Random(case["seed"])
        for _ in range(case["n"]):
            cid = rng.choice(CODE_IDS)
            ck = rng.choice(CONTAINER_KINDS)
            aligned = ck in ("aln-old", "arr-old")
            gapped = rng.random() < (0.5 if aligned else 0.35)
            data = gen_rows(rng, PINNED[cid], aligned, gapped)
            mt = "rna" if rng.random() < 0.25 else "dna"
            check_container(res, cid, data, ck, mt)
        res.sample({"kind": "container", "container": ck, "code": cid, "data": data})
    elif kind == "app":
        rng = random.Random(case["seed"])
        for _ in range(case["n"]):
            cid = rng.choice(CODE_IDS)
            ck = rng.choice(["coll-old", "coll-old", "aln-old", "arr-old"])
            data = gen_rows(rng, PINNED[cid], ck != "coll-old", False)
            # make the rows interesting for frame selection: shift / reverse some of them
            if ck == "coll-old":
                for n in list(data):
                    x = rng.random()
                    if x < 0.3:
                        data[n] = "".join(rng.choice("ACGT") for _ in range(rng.choice([1, 2]))) + data[n]
                    elif x < 0.5:
                        data[n] = rc_dna(data[n])
                if True:
                    two = gen_two_stop(rng, PINNED[cid])
                    if two:
                        data["s2stop"] = two
                        res.count("strings:two-trailing-stops")
            mt = "rna" if rng.random() < 0.15 else "dna"
            check_apps(res, cid, data, ck, mt)
        res.sample({"kind": "app", "container": ck, "code": cid, "data": data})
    elif kind == "history":
        rng = random.Random(case["seed"])
        for _ in range(case["n"]):
            cid, steps, order = gen_history(rng)
            run_history(res, cid, steps, order)
        res.sample({"kind": "history", "code": cid, "steps": [step_label(x) for x in steps]})
    elif kind == "one-history":
        run_history(res, case["code"], case["steps"])
    elif kind == "one-gapped-seq":
        check_gapped_seq(res, case["code"], case["s"], case["moltype"], case["impl"])
    elif kind == "one-gc":
        check_gc(res, case["code"], case["s"])
    elif kind == "one-seq":
        check_seq(res, case["code"], case["s"], case["moltype"], case["impl"])
    elif kind == "one-container":
        check_container(res, case["code"], case["data"], case["container"], case["moltype"])
    elif kind == "one-app":
        check_apps(res, case["code"], case["data"], case["container"], case["moltype"])
    else:
        raise ValueError(f"unknown case kind {kind!r}")


def required(counters, tier):
    miss = []
    if counters.get("codes-unpinned", 0):
        miss.append("a genetic code is available for which the monitor has no pinned NCBI table")
    if counters.get("codes-enumerated", 0) < len(CODE_IDS):
        miss.append("not every pinned genetic code was enumerated")
    need = [
        "symbols-enumerated/nucleic", "symbols-enumerated/protein",
        "op:gc[codon]/old", "op:gc[codon]/new",
        "op:old-gc.translate/dna", "op:old-gc.translate/rna", "op:new-gc.translate/str", "op:new-gc.translate/array",
        "op:new-gc.translate-rc/str", "op:new-gc.sixframes", "op:old-gc.sixframes/old-dna-seq", "op:old-gc.sixframes/new-rna-seq",
        "op:seq.get_translation/old", "op:seq.get_translation/new", "op:seq.trim_stop_codon/old", "op:seq.trim_stop_codon/new",
        "op:coll-old.get_translation", "op:coll-new.get_translation", "op:aln-old.get_translation", "op:arr-old.get_translation",
        "op:app.translate_seqs", "op:app.select_translatable/best-frame", "op:app.select_translatable/frame-given",
        "op:app.translate_frames", "op:app.best_frame",
        "outcome:rejected", "outcome:terminal-stop-trimmed", "outcome:stop-kept", "outcome:gapped-codon-translated",
        "outcome:refused-strict-length", "outcome:selected",
        "lenmod3:0", "lenmod3:1", "lenmod3:2",
        "op:moltype.complement/new/array", "op:moltype.complement/new/bytes", "op:moltype.rc/new/array", "op:moltype.complement/old/list",
        "op:seq.rc/new/as-array", "op:seq.rc/new/as-bytes", "op:seq.rc/old/as-array", "op:seq.complement/new/as-array",
        "op:coll-new-from-rc-seq/to_dict", "op:coll-old-from-rc-seq/to_dict", "op:aln-old-from-rc-seq/to_dict", "op:coll-new.rc/get_seq-array",
        "strings:two-trailing-stops",
        "op:shared-code-invariant", "op:history-step", "history:rna-first", "history:dna-first", "history:shuffled",
        "op:seq-gapped.get_translation/old", "op:seq-gapped.get_translation/new", "op:seq-gapped.trim_stop_codon/old",
        "strings:gapped-seq/old/rna", "strings:gapped-seq/old/dna", "strings:gapped-seq/new/rna",
    ] + [f"frame:{s}{f}" for s, f in FRAMES] + ["policy:" + pol_name(p) for p in POLICIES]  # fmt: skip
    for k in need:
        if not counters.get(k, 0):
            miss.append(f"never observed: {k}")
    return miss
