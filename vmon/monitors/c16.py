"""C16 — nested-model initialisation and optimisation never lose likelihood.

H  trace recorder: `Calculator.change` is wrapped from the harness; every evaluation an optimiser makes is recorded
   (value returned, or the exception), so "returns the best, not the last, point" is decided from the trace.
B  boundary: null.lnL vs alt.lnL right after alt.initialise_from_nested(null); lnL before/after optimise; parameter
   values vs their declared bounds; LR of the hypothesis app.
"""

import math
import random

import numpy as np

from vmon.core import Result, exc_mechanism
from vmon.models import lfmodel as M

ID = "C16"
LEVEL = "exploration"
RULE = (
    "nested pairs by rate-matrix structure (JC69<F81<HKY85<TN93<GTR<GN, K80<HKY85, HKY85<GTR, F81<GN, MG94HKY<MG94GTR, "
    "CNFHKY<CNFGTR, GY94(omega=1 const)<GY94) and by scoping (global parameter < per-edge independent < ...; shared "
    "kappa < clade-specific kappa) on 3-6 taxa, 30-300 columns (mutated copies of a random sequence, sense codons for "
    "codon models), Dirichlet motif probs; null fitted with a random budget, alt initialised from it, alt optimised "
    "with local (Powell) or global (simulated annealing, seeded) + local, max_evaluations in {1,5,25,200} "
    "(limit_action='ignore'), tolerance 1e-2..1e-8, some starting values at bounds. Decisions: nested-init lnL "
    "equality, optimise never decreases lnL, final lnL == max of recorded evaluation trace, final parameters within "
    "declared bounds, LR >= 0. Non-trivial = optimiser's own last evaluation is not its best one, or the pair differs "
    "by >=2 free parameters; distinct = (pair, optimiser setting, budget, last==best?)."
)
LEVEL_TEXT = (
    "Every evaluation the optimisers make is recorded at the calculator boundary and the reported result is compared "
    "with the maximum of that trace; nested initialisation is compared before any optimisation. Sampled over pairs, "
    "data sets and optimiser settings."
    " The richer function is also prepared with its own starting values or a short fit before it is initialised; the hypothesis app is driven with alternates nested by time-heterogeneity only, and the statistics of its result are compared with the functions it holds after those were continued in place."
    " Nested hypotheses may hold a branch at exactly zero length, as a constant or as a free estimate."
)
LEVEL_NOTE = "trusted: the likelihood value itself (decided by C02/C07); simulated annealing seeded through its `seed` argument"
TECHNIQUE = "runtime monitoring: evaluation-trace recorder at a wrapped calculator boundary + before/after assertions"
ASSUMPTIONS = ["the final trace entry is get_best()'s re-evaluation of the best point, so 'last != best' is judged on trace[:-1]"]
ENV = {"NUMBA_BOUNDSCHECK": "1"}
TIMEOUT = {"quick": 1500, "thorough": 7200}

STRUCT_PAIRS = [
    ("JC69", "F81"), ("F81", "HKY85"), ("K80", "HKY85"), ("HKY85", "TN93"), ("HKY85", "GTR"), ("TN93", "GTR"),
    ("JC69", "GTR"), ("GTR", "GN"), ("F81", "GN"), ("HKY85", "GN"), ("K80", "ssGN"),
]  # fmt: skip
CODON_PAIRS = [("MG94HKY", "MG94GTR"), ("CNFHKY", "CNFGTR"), ("GY94", "GY94")]
SCOPE_MODELS = ["HKY85", "GTR", "TN93", "GN"]

_TR = {"trace": None, "installed": False, "orig": None}


def _rec_change(self, changes):
    tr = _TR["trace"]
    try:
        out = _TR["orig"](self, changes)
    except Exception as e:  # noqa: BLE001
        if tr is not None:
            tr.append(("exc", type(e).__name__))
        raise
    if tr is not None:
        tr.append(("val", float(out)))
    return out


def start_trace():
    from cogent3.recalculation.calculation import Calculator

    if not _TR["installed"]:
        _TR["orig"] = Calculator.change
        Calculator.change = _rec_change
        _TR["installed"] = True
    _TR["trace"] = []
    return _TR["trace"]


def stop_trace():
    t = _TR["trace"]
    _TR["trace"] = None
    return t or []


def gen_cases(rng, tier):
    cases = []
    reps = 6 if tier == "quick" else 80
    for pair in STRUCT_PAIRS:
        for _ in range(reps):
            cases.append({"kind": "pair", "null": pair[0], "alt": pair[1], "seed": rng.randrange(2**32)})
    for pair in CODON_PAIRS:
        for _ in range(2 if tier == "quick" else 30):
            cases.append({"kind": "pair", "null": pair[0], "alt": pair[1], "seed": rng.randrange(2**32)})
    for m in SCOPE_MODELS:
        for _ in range(reps):
            cases.append({"kind": "scope", "model": m, "seed": rng.randrange(2**32)})
    for _ in range(3 if tier == "quick" else 40):
        cases.append({"kind": "app", "seed": rng.randrange(2**32)})
    for _ in range(8 if tier == "quick" else 60):
        cases.append({"kind": "bound", "seed": rng.randrange(2**32)})
    return cases


def make_data(rng, model, ntips, ncols, ts_bias=0.0):
    kind = M.kind_of(model)
    tree = M.random_tree(rng, ntips, rooted=False, polytomy=0.0, zero_frac=0.0)
    for e in M.edges(tree):
        e["length"] = round(rng.uniform(0.03, 0.5), 4)
    names = M.tips(tree)
    if kind == "codon":
        base = [rng.choice(M.SENSE) for _ in range(ncols)]
        aln = {n: "".join(c if rng.random() > 0.2 else rng.choice(M.SENSE) for c in base) for n in names}
    else:
        w = [rng.uniform(0.5, 2) for _ in range(4)]
        base = rng.choices("ACGT", weights=w, k=ncols)
        ts = {"A": "G", "G": "A", "C": "T", "T": "C"}

        def mutate(c):
            if rng.random() > 0.18:
                return c
            return ts[c] if rng.random() < ts_bias else rng.choice("ACGT")

        aln = {n: "".join(mutate(c) for c in base) for n in names}
    return tree, aln


def build(model, tree, aln, **kw):
    from cogent3 import make_aligned_seqs, make_tree

    sm = M.make_model(model) if not kw.get("optimise_motif_probs") else M._make_model(model, optimise_motif_probs=True)
    lf = sm.make_likelihood_function(make_tree(M.newick(tree)))
    lf.set_alignment(make_aligned_seqs(aln, moltype="dna"))
    return lf


def opt_settings(rng, tier):
    local = rng.random() < 0.7
    budget = rng.choice([1, 5, 25, 200])
    kw = dict(max_evaluations=budget, limit_action="ignore", show_progress=False, tolerance=rng.choice([1e-2, 1e-4, 1e-6, 1e-8]))
    if local:
        kw["local"] = True
        name = "local"
    else:
        kw.update(local=rng.choice([False, None]), seed=rng.randrange(10**6), global_tolerance=rng.choice([1.0, 0.1]))
        name = "global+local" if kw["local"] is None else "global"
    return name, budget, kw


def close(a, b, rtol=1e-8):
    return abs(a - b) <= rtol * max(1.0, abs(a), abs(b))


def params_in_bounds(res, lf, calc, label, detail):
    """final optimiser vector within the optimiser bounds; exported rules within their own lower/upper"""
    res.evals += 1
    res.count("bounds-checked")
    if calc is not None:
        lo, hi = calc.get_bounds_vectors()
        x = np.array(calc.last_values, dtype=float)
        tol = 1e-9 * np.maximum(1.0, np.abs(x))
        bad = np.where((x < lo - tol) | (x > hi + tol))[0]
        if len(bad):
            i = int(bad[0])
            res.witness(f"C16/{label}/optimised-value-outside-bounds", par=calc.opt_pars[i].name, value=float(x[i]), lower=float(lo[i]), upper=float(hi[i]), **detail)
            return
    for rule in lf.get_param_rules():
        v = rule.get("init", rule.get("value"))
        if v is None or isinstance(v, dict) or hasattr(v, "__len__"):
            continue
        lo_, hi_ = rule.get("lower"), rule.get("upper")
        if (lo_ is not None and v < lo_ - 1e-9 * max(1, abs(lo_))) or (hi_ is not None and v > hi_ + 1e-9 * max(1, abs(hi_))):
            res.witness(f"C16/{label}/reported-value-outside-declared-bounds", rule={k: (vv if not hasattr(vv, "tolist") else vv.tolist()) for k, vv in rule.items()}, **detail)
            return


def optimise_and_decide(res, lf, rng, tier, label, detail, sig_base):
    """run lf.optimise under a recorded trace; decide monotonicity, best-not-last, bounds"""
    name, budget, kw = opt_settings(rng, tier)
    before = float(lf.lnL)
    start_trace()
    calc = None
    try:
        calc = lf.optimise(return_calculator=True, **kw)
    except Exception as e:  # noqa: BLE001
        stop_trace()
        res.evals += 1
        res.witness(exc_mechanism(f"C16/{label}/optimise-{name}", e), before=before, settings={k: v for k, v in kw.items()}, error=repr(e)[:300], **detail)
        return None
    trace = stop_trace()
    after = float(lf.lnL)
    vals = [v for k, v in trace if k == "val"]
    res.evals += 1
    res.count("optimise-runs")
    res.count("optimiser:" + name)
    res.count(f"budget:{budget}")
    d = dict(detail, settings={k: v for k, v in kw.items()}, before=before, after=after, n_evaluations=len(vals))
    if after < before - 1e-9 * max(1.0, abs(before)):
        res.witness(f"C16/{label}/optimise-decreased-lnL/{name}", **d)
    if vals:
        best = max(vals)
        res.evals += 1
        res.count("trace-checked")
        if not close(after, best, 1e-9):
            res.witness(f"C16/{label}/reported-lnL-is-not-best-of-trace/{name}", best_of_trace=best, last_of_trace=vals[-1], **d)
        inner = vals[:-1]
        last_is_best = (not inner) or inner[-1] >= max(inner) - 1e-12
        if not last_is_best:
            res.count("trace:optimiser-last-not-best")
            res.sig(*sig_base, name, budget, "last!=best")
        else:
            res.count("trace:optimiser-last-is-best")
            if sig_base[-1] == "multi":
                res.sig(*sig_base, name, budget, "last==best")
    if any(k == "exc" for k, _ in trace):
        res.count("trace:evaluations-raising")
    params_in_bounds(res, lf, calc, label, d)
    return after


def run_pair(res, rng, tier, null_name, alt_name):
    kind = M.kind_of(null_name)
    ntips = rng.randint(3, 4 if kind == "codon" else 6)
    ncols = rng.randint(10, 25) if kind == "codon" else rng.randint(30, 300)
    tree, aln = make_data(rng, null_name, ntips, ncols)
    detail = {"null": null_name, "alt": alt_name, "tree": M.newick(tree), "aln": aln}
    label = f"{null_name}<{alt_name}"
    try:
        null = build(null_name, tree, aln)
        same_model = null_name == alt_name
        if same_model:  # GY94 with omega fixed at 1 nested in GY94
            null.set_param_rule("omega", is_constant=True, value=1.0)
        # the richer model must free whatever the nested one fixes
        alt = build(alt_name, tree, aln, optimise_motif_probs=(null_name in ("JC69", "K80") and alt_name in ("F81", "HKY85", "GTR")))
        # sometimes the nested model holds one of its rate parameters constant at an arbitrary value (a nested
        # hypothesis in its own right); the richer model must still start from the same likelihood
        null_pars = M.rate_param_names(null_name) if null_name in M.NUC_REV + M.NUC_NS + M.CODON else []
        if null_pars and not same_model and rng.random() < 0.45:
            cpar = rng.choice(null_pars)
            cval = round(math.exp(rng.uniform(math.log(0.3), math.log(5.0))), 4)
            null.set_param_rule(cpar, is_constant=True, value=cval)
            detail["null_constant"] = [cpar, cval]
        if rng.random() < 0.3:
            # the nested hypothesis holds one branch at exactly zero length (value 0 is in bounds); the richer model
            # frees it and must start from that same point
            ze = rng.choice(M.edges(tree))["name"]
            null.set_param_rule("length", edge=ze, is_constant=True, value=0.0)
            detail["null_zero_length_edge"] = ze
    except Exception as e:  # noqa: BLE001
        res.evals += 1
        res.witness(exc_mechanism(f"C16/{label}/build", e), **detail)
        return
    sig_base = (label, "multi" if (alt.get_num_free_params() - null.get_num_free_params()) >= 2 else "single")
    # fit the null with some budget (also decided)
    optimise_and_decide(res, null, rng, tier, "null-fit", detail, (label, "null"))
    if rng.random() < 0.3 and "null_zero_length_edge" not in detail:
        # (one zero-length edge per problem: two of them between different sequences make the true likelihood zero and
        # what the functions then report is rounding noise of P(0), which no relation can be demanded of)
        # a FREE branch length of the nested fit sits at exactly zero (its lower bound): an estimate of 0.0 is a value
        ze2 = rng.choice(M.edges(tree))["name"]
        try:
            null.set_param_rule("length", edge=ze2, init=0.0)
            detail["null_free_length_at_zero"] = ze2
            res.count("nested-init:null-free-length-at-zero")
        except Exception as e:  # noqa: BLE001
            res.evals += 1
            res.witness(exc_mechanism(f"C16/{label}/set-zero-length", e), **detail)
            return
    null_lnL = float(null.lnL)
    if not math.isfinite(null_lnL):
        res.refused += 1  # zero-length edges between different sequences: the nested model gives the data likelihood 0
        res.count("refused:nested-likelihood-is-zero")
        return
    if alt.get_num_free_params() <= null.get_num_free_params():
        res.refused += 1  # documented assertion "wrong order": nesting needs more free parameters in alt
        res.count("refused:alt-has-no-more-free-params")
        return
    # the richer function may have been used before (own starting values, a few optimiser steps): whatever it holds,
    # initialising it from the nested fit must give the nested likelihood
    used = None
    if not same_model and alt_name in M.NUC_REV + M.NUC_NS + M.CODON and rng.random() < 0.45:
        try:
            if rng.random() < 0.7:
                used = "own-starting-values"
                for p_ in M.rate_param_names(alt_name):
                    alt.set_param_rule(p_, init=round(math.exp(rng.uniform(math.log(0.2), math.log(6.0))), 4))
                for e_ in M.edges(tree):
                    alt.set_param_rule("length", edge=e_["name"], init=round(rng.uniform(0.01, 1.0), 4))
            else:
                used = "optimised-before"
                alt.optimise(local=True, max_evaluations=rng.choice([5, 30]), limit_action="ignore", show_progress=False)
            detail["alt_state"] = used
        except Exception as e:  # noqa: BLE001
            res.evals += 1
            res.witness(exc_mechanism(f"C16/{label}/prepare-alt", e), **detail)
            return
    try:
        alt.initialise_from_nested(null)
        alt_lnL = float(alt.lnL)
    except Exception as e:  # noqa: BLE001
        res.evals += 1
        res.witness(exc_mechanism(f"C16/nested-init/{label}", e), error=repr(e)[:300], **detail)
        return
    res.evals += 1
    res.count("nested-init-checked")
    if used:
        res.count("nested-init:alt-" + used)
    if "null_constant" in detail:
        res.count("nested-init:null-with-constant-rate-param")
    if "null_zero_length_edge" in detail:
        res.count("nested-init:null-with-zero-length-edge")
    if not close(alt_lnL, null_lnL, 1e-8):
        res.witness(f"C16/nested-init/lnL-differs/{label}" + ("/null-has-constant-param" if "null_constant" in detail else "") + ("/null-has-zero-length-edge" if "null_zero_length_edge" in detail or "null_free_length_at_zero" in detail else "") + ("/alt-used-before" if used else ""), null_lnL=null_lnL, alt_lnL=alt_lnL, **detail)
        return
    final = optimise_and_decide(res, alt, rng, tier, "alt-fit", detail, sig_base)
    if final is not None:
        res.evals += 1
        res.count("LR-checked")
        if final < null_lnL - 1e-6:
            res.witness(f"C16/negative-LR/{label}", null_lnL=null_lnL, alt_lnL=final, **detail)
    res.sample({"null": null_name, "alt": alt_name, "tree": M.newick(tree), "ncols": ncols})


def run_scope(res, rng, tier, model):
    """nesting by parameter scope: shared parameter < clade-specific < per-edge independent"""
    ntips = rng.randint(4, 6)
    tree, aln = make_data(rng, model, ntips, rng.randint(40, 250))
    par = rng.choice(M.rate_param_names(model))
    enames = [e["name"] for e in M.edges(tree)]
    tipn = M.tips(tree)
    detail = {"model": model, "par": par, "tree": M.newick(tree), "aln": aln}
    label = f"{model}-scope"
    try:
        null = build(model, tree, aln)
        alt = build(model, tree, aln)
        style = rng.choice(["independent", "subset", "clade"])
        if style == "independent":
            alt.set_param_rule(par, is_independent=True)
        elif style == "subset":
            alt.set_param_rule(par, edges=rng.sample(enames, rng.randint(1, len(enames) - 1)), is_independent=rng.choice([True, False]))
        else:
            a, b = rng.sample(tipn, 2)
            out = rng.choice([t for t in tipn if t not in (a, b)])
            alt.set_param_rule(par, tip_names=[a, b], outgroup_name=out, clade=True, stem=rng.choice([True, False]), is_independent=False)
        detail["scope_style"] = style
    except Exception as e:  # noqa: BLE001
        res.evals += 1
        res.witness(exc_mechanism(f"C16/{label}/build", e), **detail)
        return
    # some starting values at / near bounds
    if rng.random() < 0.3:
        try:
            null.set_param_rule(par, init=rng.choice([1e-6, 1e-5, 1e5, 1e6]))
        except Exception:  # noqa: BLE001
            pass
    optimise_and_decide(res, null, rng, tier, "null-fit", detail, (label, "null"))
    null_lnL = float(null.lnL)
    if alt.get_num_free_params() <= null.get_num_free_params():
        res.refused += 1
        res.count("refused:alt-has-no-more-free-params")
        return
    try:
        alt.initialise_from_nested(null)
        alt_lnL = float(alt.lnL)
    except Exception as e:  # noqa: BLE001
        res.evals += 1
        res.witness(exc_mechanism(f"C16/nested-init/{label}/{style}", e), error=repr(e)[:300], **detail)
        return
    res.evals += 1
    res.count("nested-init-checked")
    res.count("nested-by-scope")
    if not close(alt_lnL, null_lnL, 1e-8):
        res.witness(f"C16/nested-init/lnL-differs/{label}/{style}", null_lnL=null_lnL, alt_lnL=alt_lnL, **detail)
        return
    sig_base = (label + ":" + style, "multi" if (alt.get_num_free_params() - null.get_num_free_params()) >= 2 else "single")
    final = optimise_and_decide(res, alt, rng, tier, "alt-fit", detail, sig_base)
    if final is not None:
        res.evals += 1
        res.count("LR-checked")
        if final < null_lnL - 1e-6:
            res.witness(f"C16/negative-LR/{label}/{style}", null_lnL=null_lnL, alt_lnL=final, **detail)


def run_app(res, rng, tier):
    """the documented app route: hypothesis(null, alt) -> LR >= 0, alt initialised from null"""
    from cogent3 import get_app, make_aligned_seqs

    null_name, alt_name = rng.choice([("F81", "HKY85"), ("HKY85", "GTR"), ("HKY85", "TN93"), ("GTR", "GN"), ("HKY85", "HKY85"), ("GTR", "GTR"), ("TN93", "TN93")])
    tree, aln = make_data(rng, null_name, rng.randint(3, 5), rng.randint(60, 200))
    detail = {"null": null_name, "alt": alt_name, "tree": M.newick(tree), "aln": aln}
    try:
        opt = dict(max_evaluations=rng.choice([25, 100, 400]), limit_action="ignore")
        tr = M.newick(tree, with_lengths=False)
        altkw = {}
        alt_opt = opt
        if null_name == alt_name:
            # nested by scoping only: the alternate frees the rate terms per branch ("max") or on a set of edges
            tipn = M.tips(tree)
            altkw["time_het"] = "max" if rng.random() < 0.5 else [dict(edges=rng.sample(tipn, 2), is_independent=rng.choice([False, True]))]
            alt_opt = dict(max_evaluations=rng.choice([5, 10, 40]), limit_action="ignore")
            opt = dict(max_evaluations=300, limit_action="ignore")
            detail["time_het"] = altkw["time_het"]
            alt_name_label = alt_name + "+time_het"
        else:
            alt_name_label = alt_name
        null = get_app("model", null_name, tree=tr, opt_args=opt, show_progress=False, name="null")
        alt = get_app("model", alt_name, tree=tr, opt_args=alt_opt, show_progress=False, name="alt", **altkw)
        hyp = get_app("hypothesis", null, alt)
        data = make_aligned_seqs(aln, moltype="dna")
        data.info.source = "harness"
        start_trace()
        result = hyp(data)
        stop_trace()
    except Exception as e:  # noqa: BLE001
        stop_trace()
        res.evals += 1
        res.witness(exc_mechanism("C16/app/hypothesis", e), error=repr(e)[:300], **detail)
        return
    res.evals += 1
    res.count("app-hypothesis-runs")
    if not result:  # NotCompleted
        res.witness("C16/app/hypothesis-not-completed", message=str(result)[:300], **detail)
        return
    LR = float(result.LR)
    lnL0 = float(result.null.lnL)
    lnL1 = float(result.alt.lnL) if hasattr(result.alt, "lnL") else float(list(result.alt)[0].lnL)
    if LR < -1e-6 or lnL1 < lnL0 - 1e-6:
        # G: the model app gives every rate parameter the bounds [1e-6, 50]. When the fitted null, projected onto the
        # richer parameterisation (e.g. GTR C/T=48.8 -> GN C>T=63.2), falls outside those bounds, the bounded alternative
        # does not contain the null point, i.e. the pair is not genuinely nested as configured; the value is clipped
        # and a negative LR under a small evaluation budget is then not a violation of this property.
        outside = []
        try:
            from cogent3 import get_model, make_tree

            probe = get_model(alt_name).make_likelihood_function(make_tree(tr))
            probe.set_alignment(data)
            probe.initialise_from_nested(result.null.lf)
            for rule in probe.get_param_rules():
                v = rule.get("init", rule.get("value"))
                if rule["par_name"] in ("mprobs", "length") or v is None or hasattr(v, "__len__") or isinstance(v, dict):
                    continue
                if v > 50 or v < 1e-6:
                    outside.append([rule["par_name"], float(v)])
        except Exception as e:  # noqa: BLE001
            outside = []
            detail["probe_error"] = repr(e)[:200]
        if outside:
            res.refused += 1
            res.count("app:null-point-outside-alt-bounds(not nested as configured)")
        else:
            res.witness(f"C16/app/negative-LR/{null_name}<{alt_name_label}", LR=LR, null_lnL=lnL0, alt_lnL=lnL1, **detail)
    if "time_het" in detail:
        res.count("app:alt-nested-by-time-het")
    res.sig("app", null_name, alt_name_label, alt_opt["max_evaluations"])
    # the result's statistics describe the functions it holds, also after those were continued in place
    try:
        alt_res = result.alt if hasattr(result.alt, "lf") else list(result.alt)[0]
        for mr, nm in ((result.null, "null"), (alt_res, "alt")):
            _ = float(mr.lnL)
            mr.lf.optimise(local=True, max_evaluations=rng.choice([3, 20]), limit_action="ignore", show_progress=False)
        stats = {"null": (float(result.null.lnL), float(result.null.lf.lnL), result.null.nfp, result.null.lf.nfp), "alt": (float(alt_res.lnL), float(alt_res.lf.lnL), alt_res.nfp, alt_res.lf.nfp)}
        LR2 = float(result.LR)
    except Exception as e:  # noqa: BLE001
        res.evals += 1
        res.witness(exc_mechanism("C16/app/continue-in-place", e), error=repr(e)[:300], **detail)
        return
    res.evals += 1
    res.count("app:statistics-after-continuation-checked")
    for nm, (a_, b_, n_, m_) in stats.items():
        if not close(a_, b_, 1e-10) or n_ != m_:
            res.witness(f"C16/app/result-statistics-stale-after-continuing-the-fit/{nm}", reported_lnL=a_, function_lnL=b_, reported_nfp=n_, function_nfp=m_, **detail)
            return
    exp_LR = 2 * (stats["alt"][1] - stats["null"][1])
    if abs(LR2 - exp_LR) > 1e-8 * max(1.0, abs(exp_LR)):
        res.witness("C16/app/LR-is-not-twice-the-lnL-difference-of-the-held-functions", LR=LR2, expected=exp_LR, **detail)


def run_bound(res, rng, tier):
    """a transition-rate parameter starts ON its declared upper bound and the data put its maximum beyond it, so the
    optimised value ends exactly at the bound: the value written back to the function must stay there"""
    model = rng.choice(["HKY85", "TN93", "GTR"])
    par = {"HKY85": "kappa", "TN93": rng.choice(["kappa_r", "kappa_y"]), "GTR": rng.choice(["A/G", "C/T"])}[model]
    upper = rng.choice([2.0, 3.0, 5.0, 10.0, 30.0])
    tree, aln = make_data(rng, model, rng.randint(3, 5), rng.randint(150, 400), ts_bias=0.95)
    detail = {"model": model, "par": par, "upper": upper, "tree": M.newick(tree), "aln": aln}
    try:
        lf = build(model, tree, aln)
        lf.set_param_rule(par, init=upper, upper=upper)
    except Exception as e:  # noqa: BLE001
        res.evals += 1
        res.witness(exc_mechanism("C16/start-on-upper-bound/build", e), **detail)
        return
    res.count("start-on-upper-bound")
    final = optimise_and_decide(res, lf, rng, tier, "start-on-upper-bound", detail, ("bound", model, "single"))
    if final is not None:
        v = float(lf.get_param_value(par))
        res.evals += 1
        if v > upper * (1 + 1e-9) or v < 1e-6:
            res.witness("C16/start-on-upper-bound/value-outside-bounds-after-optimise", value=v, **detail)
        if abs(v - upper) <= 1e-6 * upper:
            res.count("start-on-upper-bound:ended-on-bound")
            res.sig("bound", model, par, upper, "ended-on-bound")


def run_case(case):
    res = Result()
    rng = random.Random(case["seed"])
    tier = case.get("tier", "quick")
    if case["kind"] == "pair":
        run_pair(res, rng, tier, case["null"], case["alt"])
    elif case["kind"] == "scope":
        run_scope(res, rng, tier, case["model"])
    elif case["kind"] == "app":
        run_app(res, rng, tier)
    elif case["kind"] == "bound":
        run_bound(res, rng, tier)
    return res


def required(counters, tier):
    need = ["start-on-upper-bound:ended-on-bound", "nested-init-checked", "nested-init:null-with-constant-rate-param", "nested-by-scope", "trace-checked", "trace:optimiser-last-not-best", "optimiser:local", "bounds-checked", "LR-checked", "app-hypothesis-runs", "app:statistics-after-continuation-checked", "nested-init:alt-own-starting-values", "nested-init:null-with-zero-length-edge", "nested-init:null-free-length-at-zero", "budget:1", "budget:200"]
    if not (counters.get("optimiser:global") or counters.get("optimiser:global+local")):
        need.append("optimiser:global")
    return [n for n in need if not counters.get(n)]
