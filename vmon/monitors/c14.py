"""C14 — composed apps account for every input exactly once, on any schedule.

Shape S + B (schedule forcing + history checker).

Every history is one append-only JSONL file written with single O_APPEND writes by every process involved:
`submit` (harness, parent), `start`/`finish`/`saw-nc`/`opaque` (the harness-defined steps, in whichever process runs
them), `yield` (a wrapper around the writer's `as_completed`, i.e. the order results leave cogent3's dispatch) and
`write` (a wrapper around the output store's write / write_not_completed).  After the run the output store is read
from disk with plain os / json / sqlite3 / pickle.  An offline checker decides conservation, association, failure
records, pass-through and serial == parallel from the history + the final store; the expected outcome of every record
comes from a small model of the *plan* (which step fails how) and from calling the same chain on that input alone.
"""

import heapq
import json
import os
import pickle
import random
import shutil
import sqlite3
import tempfile
import threading
import time

from vmon.core import Result, exc_mechanism, jsonable

ID = "C14"
LEVEL = "exploration"
MAX_JOBS = 4  # every parallel history starts up to 8 loky worker processes of its own
RULE = (
    "histories of compositions loader + 0-3 generic steps (typed dict->dict, untyped, and an observer with "
    "skip_not_completed=False) + write_json over DataStoreDirectory / write_db over DataStoreSqlite / (dict->seqs step +) "
    "write_seqs over DataStoreDirectory, 1-10 (quick) / "
    "1-24 (thorough) inputs given as path strings, Path objects, DataMembers or an input DataStoreDirectory; every "
    "record has a planned outcome at a planned step from {ok, raises (7 exception classes), returns None, returns a "
    "wrong type, returns a NotCompleted, returns a falsy-but-valid value}; entry points apply_to (fresh store, "
    "resumed store, default logger) and as_completed; extra input kinds: in-memory objects carrying their own "
    "source (not proxied) and raw python values, both including falsy ones. Parallel histories use "
    "apply_to/as_completed(parallel=True, par_kw={'max_workers': w[, 'chunksize': c]}) with w in {1,2,3,8}, c in "
    "{1,2,3,5} and input counts hitting every residue mod c (incl. a single input and n=c+1), histories with many "
    "inputs per worker (n >= 5w up to 80, w in 2..4, mostly instant tasks plus bursts sharing a deadline) through each "
    "writer, direct exactly-once checks of cogent3.util.parallel.as_completed/imap/map over 0,1,2,4w,4w+1,8w+3,60 "
    "items, and per-input completion "
    "deadlines computed from a target completion permutation (identity, reverse, first-submitted-last, "
    "last-submitted-first, evens-then-odds, random), released by a gate once the worker processes have picked up "
    "their first task; the realised order is read from the history (yield events) and each parallel history is "
    "compared with a serial run of the same workload. A parallel history is non-trivial when its realised "
    "completion order differs from the submission order and it has >= 1 failing record. Chains also contain apps "
    "defined from FUNCTIONS configured with mutable arguments (positional list/dict, keyword dict/set/list) that "
    "they mutate; apply_to is also given custom id_from_source functions (upper-cased, own suffix rule, "
    "directory+name with the same file name in two directories so that the default identifiers would collide) "
    "and records are demanded under those identifiers. A history is counted non-trivial when its realised order is "
    "not the submission order or it has >= 1 failing record; distinct = (n class, workers (0 = serial), realised "
    "order class, outcome pattern, store, entry, input kind)."
)
LEVEL_TEXT = (
    "Each history is decided offline from an append-only event log written by all processes plus the final store "
    "read from disk: one record per submitted input under its own identifier, content equal to the plan model and to "
    "the chain called on that input alone, failure records naming step/message/source, no step run after a failure, "
    "serial store == parallel store. Completion orders are forced by deadlines and the orders actually realised are "
    "counted; held = held on the histories and realised orders listed in the evidence."
)
LEVEL_NOTE = (
    "trusted: O_APPEND single-line writes are atomic and totally ordered; CLOCK_MONOTONIC is shared by the processes "
    "of one machine; the harness-defined steps realise their plan. MPI schedules are out of reach (no mpi4py)."
)
TECHNIQUE = "runtime monitoring: forced completion schedules + offline history checker (exactly-once / association) over an append-only multi-process event log"
ASSUMPTIONS = [
    "identifiers are equal-length tokens that are not prefixes/suffixes of one another and contain no format suffix (data-store name handling is C13's subject)",
    "empty-string inputs are skipped by design (pinned by tests/test_app/test_composable.py::test_as_completed_empty_data) and are not generated",
    "wall-clock is never a verdict: a parallel history whose realised order equals submission order is counted trivial",
    "the source inside a failure record is demanded only when the value entering the failing step carries one (path string, Path, DataMember, dict with 'source', object with .source); the record's identifier is always demanded",
    "resumed apply_to on a store that already holds a not-completed record for an input: skipping it (sqlite: the record is a member) and running it again (directory store) are both accepted; a skipped record must be untouched",
    "a wrong-typed value that the writer can store (anything JSON-able for write_json, anything picklable for write_db) is a completed record, as it is for the chain called alone; one it cannot store must become a not-completed record naming the writer",
    "direct calls composed(x) are driven with write_db only (write_json/write_seqs return a NotCompleted without storing it, by design); a value or failure that carries no source cannot be filed by the writer and nothing is demanded for it; the value '' is not generated there",
    "result order is not asserted; type of a failure record (ERROR/BUG/...) is demanded only for a NotCompleted that a step itself returned",
]
TIMEOUT = {"quick": 1800, "thorough": 7200}

from vmon.models import c14_apps as A  # noqa: E402

TARGETS = ["reverse", "first-last", "last-first", "evens-odds", "random", "identity"]
MODES = ["ok", "exc", "none", "wrong", "nc", "falsy", "empty"]
VARIANTS = {
    "exc": ["ValueError", "KeyError", "OSError", "AssertionError", "StopIteration", "PlannedError", "RuntimeError", "ZeroDivisionError"],
    "none": [None],
    "wrong": ["str", "int", "list-of-str", "set-of-str"],
    "nc": ["origin-instance", "origin-str", "type-custom"],
    "falsy": ["zero", "empty-dict", "empty-list", "empty-str", "false", "zero-float"],
    "empty": ["item", "seqs"],  # falsy (zero length) AND carrying the record's source; always followed by a typed step
    "ok": [None],
}
GAP0 = 0.1


# ---------------------------------------------------------------------------
# case generation


def gen_cases(rng, tier):
    cases = []
    if tier == "quick":
        grid = [
            # workers, target, n, store, entry, inputs   (the 8-worker histories first: one per harness worker)
            (8, "reverse", 8, "sql", "apply_to", "dstore"),
            (8, "random", 10, "dir", "apply_to", "path"),
            (3, "evens-odds", 9, "fasta", "apply_to", "str"),
            (3, "first-last", 7, "sql", "apply_to", "member"),
            (2, "reverse", 6, "dir", "apply_to", "str"),
            (3, "random", 9, "dir", "apply_to", "member"),
            (2, "evens-odds", 8, "sql", "as_completed", "str"),
            (3, "last-first", 8, "fasta", "apply_to", "dstore"),
            (2, "first-last", 5, "dir", "as_completed", "values"),
            (3, "reverse", 5, "sql", "apply_to", "items"),
            (1, "reverse", 4, "dir", "apply_to", "str"),
            (8, "last-first", 6, "dir", "as_completed", "member"),
        ]
        grid_chunks = [3, 3, 2, 5, 5, 5, 2, 3, 5, 1, 3, None]  # par_kw chunksize of the grid histories (None: not passed)
        for (w, t, n, store, entry, inputs), c in zip(grid, grid_chunks):
            cases.append({"kind": "parallel", "seed": rng.randrange(2**32), "workers": w, "target": t, "n": n, "store": store, "entry": entry, "inputs": inputs, "chunksize": c})
        cases.extend(chunk_cases(rng, 4, CHUNK_TABLE_QUICK))
        # placed so that the four harness workers get similar loads
        cases.extend(many_cases(rng, [(2, 60, "dir", "str"), (3, 48, "sql", "member"), (4, 64, "fasta", "path")]))
        cases.append({"kind": "par-direct", "workers": 3, "reps": 2, "mixed": True})
        cases.append({"kind": "par-direct", "workers": 2, "reps": 2, "mixed": False})
        for _ in range(20):
            cases.append({"kind": "serial", "seed": rng.randrange(2**32), "n": 5, "max_inputs": 10})
    else:
        for i in range(160):
            w = 1 if i % 10 == 0 else [2, 3, 8][i % 3]
            inputs = rng.choice(["str", "str", "path", "member", "member", "dstore", "items", "values"])
            entry = "as_completed" if inputs == "values" else ("apply_to" if inputs == "items" else rng.choice(["apply_to", "apply_to", "as_completed"]))
            cases.append(
                {
                    "kind": "parallel",
                    "seed": rng.randrange(2**32),
                    "workers": w,
                    "target": TARGETS[i % len(TARGETS)] if i % 7 else "random",
                    "n": 24 if i % 5 == 0 else rng.randint(1, 24),
                    "store": rng.choice(["dir", "sql", "fasta"]),
                    "entry": entry,
                    "inputs": inputs,
                    "chunksize": rng.choice([None, 1, 2, 3, 5]),
                }
            )
        cases.extend(chunk_cases(rng, 8))
        cases.extend(chunk_cases(rng, 8))
        spec = []
        for i in range(15):
            w = 2 + i % 3
            spec.append((w, rng.randint(5 * w, 80), ["dir", "sql", "fasta"][i % 3], rng.choice(["str", "path", "member", "dstore", "items"])))
        cases.extend(many_cases(rng, spec))
        for w in (2, 3, 4, 2, 3, 4):
            cases.append({"kind": "par-direct", "workers": w, "reps": 6, "mixed": True})
        for _ in range(100):
            cases.append({"kind": "serial", "seed": rng.randrange(2**32), "n": 10, "max_inputs": 24})
    cases.append({"kind": "direct", "seed": rng.randrange(2**32), "n": 40 if tier == "quick" else 400})
    # fixed small workloads, so that every seed reaches the "value the writer cannot store" class
    cases.append({"kind": "fixed", "store": "fasta", "variant": "str"})
    cases.append({"kind": "fixed", "store": "dir", "variant": "set-of-str"})
    # dotted identifiers in the suffix-less store and a falsy value that carries its source: reached by every seed
    for order in ("base-first", "base-last"):
        cases.append({"kind": "fixed-dotted", "order": order, "entry": "apply_to", "resumed": False, "empty": "seqs"})
        cases.append({"kind": "fixed-dotted", "order": order, "entry": "apply_to", "resumed": True, "empty": "item", "inputs": "member"})
        cases.append({"kind": "fixed-dotted", "order": order, "entry": "call", "resumed": False, "empty": "seqs"})
    # source names that a sloppy suffix rule mangles or merges: reached by every seed
    for store, inputs, resumed, gz in (("sql", "str", False, ["next", "box"]), ("dir", "path", True, ["matt"]), ("sql", "member", True, []), ("dir", "dstore", False, [])):
        cases.append({"kind": "fixed-dotted", "order": "base-first", "entry": "apply_to", "resumed": resumed, "empty": "item", "inputs": inputs, "store": store,
                      "keys": TRICKY_NAMES, "first": ["run.trimmed", "set_t", "x.bak", "next"], "gz": gz})  # fmt: skip
    for i in range(6 if tier == "quick" else 40):
        cases.append({"kind": "real", "seed": rng.randrange(2**32), "order": ["base-first", "base-last", "shuffled"][i % 3], "inputs": ["str", "member"][i % 2]})
    return cases


CHUNKSIZES = [1, 2, 3, 5]
# (n inputs, chunksize): every residue of n modulo the chunksize, including a single input and n = chunksize + 1
CHUNK_TABLE = [(1, 1), (2, 1), (1, 2), (2, 2), (3, 2), (1, 3), (3, 3), (4, 3), (5, 3), (1, 5), (5, 5), (6, 5), (7, 5), (8, 5), (9, 5)]


# quick: only what the 12 grid histories (n, chunksize) do not already cover
CHUNK_TABLE_QUICK = [(2, 1), (1, 2), (3, 2), (1, 3), (3, 3), (4, 3), (1, 5), (8, 5)]


def many_cases(rng, spec):
    """many inputs relative to the workers (n >= 5 * max_workers), most of them instant: dispatch has to keep going
    while several tasks finish between two looks of the parent"""
    out = []
    for w, n, store, inputs in spec:
        out.append({"kind": "parallel", "seed": rng.randrange(2**32), "workers": w, "target": "bursts", "n": n,
                    "store": "dir" if inputs == "items" and store == "fasta" else store, "entry": "apply_to", "inputs": inputs, "chunksize": None})  # fmt: skip
    return out


def chunk_cases(rng, nbatches, table=None):
    """par_kw={'max_workers': w, 'chunksize': c}: chunking is documented and must make no observable difference.
    Small 2-3 worker histories, batched so that the harness workers get similar loads"""
    subs = []
    for i, (n, c) in enumerate(table or CHUNK_TABLE):
        inputs = ["str", "member", "path", "dstore", "items", "values"][i % 6]
        entry = "as_completed" if inputs == "values" or (i % 4 == 3 and inputs != "items") else "apply_to"
        subs.append(
            {"kind": "parallel", "seed": rng.randrange(2**32), "workers": 2 + (i % 4 == 0), "target": "reverse", "n": n,
             "store": ["dir", "sql", "fasta"][i % 3], "entry": entry, "inputs": inputs, "chunksize": c}
        )  # fmt: skip
    # longest first, dealt round-robin
    subs.sort(key=lambda x: -x["n"])
    return [{"kind": "parallel-batch", "items": subs[j::nbatches]} for j in range(nbatches)]


# ---------------------------------------------------------------------------
# workloads


def make_ids(rng, n):
    """equal-length distinct tokens: none is a prefix/suffix of another, none contains json/txt/log/fasta"""
    alphabet = "bcdghkmpqvwz"
    return [f"r{i:02d}" + "".join(rng.choice(alphabet) for _ in range(4)) for i in range(n)]


def plan_positions(steps):
    """positions a planned outcome can sit at: the loader (0) and every step that takes a plan"""
    return [0] + [i for i, s in enumerate(steps, start=1) if s not in A.PLANLESS]


def make_plan(rng, keys, steps, pattern):
    plan = {}
    at = plan_positions(steps)
    for k in keys:
        if pattern == "all-ok":
            mode = "ok"
        elif pattern == "all-fail":
            mode = rng.choice(["exc", "none", "nc", "exc"])
        else:
            mode = rng.choices(MODES, weights=[40, 18, 9, 12, 12, 9, 12])[0]
        if mode == "ok":
            continue
        pos = rng.choice(at)
        if mode == "empty":
            # needs a typed step behind it (which then has to report a failure naming the source)
            ok_pos = [a for a in at if any(s_ in A.TYPED for s_ in steps[a:])]
            if ok_pos:
                pos = rng.choice(ok_pos)
            else:
                mode = "none"
        plan[k] = {"at": pos, "mode": mode, "variant": rng.choice(VARIANTS[mode])}
    if pattern == "single-fail" and keys:
        k = rng.choice(keys)
        plan = {k: plan.get(k) or {"at": rng.choice(at), "mode": "exc", "variant": "ValueError"}}
    return plan


# file names are <name>.txt: stems ending in characters of ".txt", the suffix repeated inside the name
TRICKY_NAMES = ["next", "text", "matt", "box", "set_t", "set_x", "sofa_t", "data.tx", "tx", "ttt", "run.txt.trimmed", "run.trimmed", "x.txt.bak", "x.bak"]
ID_VARIANTS = [None, None, "upper", "tagged", "dir-name", "dir-name"]


def make_workload(rng, n, store=None, entry=None, inputs=None, idfn="random"):
    steps_pool = ["alpha", "beta", "gamma", "watch", "fn", "fn2"]
    nst = rng.choice([0, 1, 1, 2, 2, 3, 3])
    steps = rng.sample(steps_pool, nst)
    inputs = inputs or rng.choice(["str", "str", "path", "member", "dstore"])
    store = store or rng.choice(["dir", "dir", "sql", "sql", "fasta"])
    if store == "fasta":
        if inputs in ("items", "values"):
            store = "dir"
        else:
            steps = steps + ["seqs"]  # dict -> sequence collection, in front of write_seqs
    W = {
        "n": n,
        "steps": steps,
        "store": store,
        "entry": entry or rng.choice(["apply_to", "apply_to", "apply_to", "as_completed"]),
        "inputs": inputs,
        "logger": rng.random() < 0.25,
        "keys": make_ids(rng, n),
    }
    # a custom id_from_source handed to apply_to (the writer keeps its default one); "dir-name" comes with the input
    # layout in which the same file name occurs in two directories, so the DEFAULT identifiers would collide
    W["idfn"], W["layout"] = None, "flat"
    if W["entry"] == "apply_to" and inputs != "values":
        W["idfn"] = rng.choice(ID_VARIANTS) if idfn == "random" else idfn
        if W["idfn"] == "dir-name":
            if inputs in ("str", "path"):
                W["layout"] = "subdirs"
                toks = make_ids(rng, (n + 1) // 2)
                W["keys"] = ["n" + toks[i // 2][1:] + "ab"[i % 2] for i in range(n)]
            else:
                W["idfn"] = "tagged"
    # the composed app CALLED on each input (only with the pickling writer, which also stores not-completed values)
    if entry is None and store == "sql" and inputs != "values" and W["layout"] == "flat" and rng.random() < 0.3:
        W["entry"], W["idfn"], W["logger"] = "call", None, False
    # identifiers where one is another plus a dotted tail (gene, gene.1, gene.2, other): only with the suffix-less store
    W["keyscheme"] = "plain"
    if store == "sql" and W["layout"] == "flat" and inputs != "values" and rng.random() < 0.5:
        W["keyscheme"] = "dotted"
        toks = make_ids(rng, (n + 2) // 3)
        W["keys"] = [toks[i // 3] + ("" if i % 3 == 0 else f".{i % 3}") for i in range(n)]
        order = rng.choice(["base-first", "base-last", "shuffled"])
        if order == "base-last":
            W["keys"].reverse()
        elif order == "shuffled":
            rng.shuffle(W["keys"])
    elif store in ("sql", "dir") and W["layout"] == "flat" and W["idfn"] is None and inputs in ("str", "path", "member", "dstore") and rng.random() < 0.4:
        # names whose stem ends in characters of the suffix, that repeat the suffix inside, or are compressed
        W["keyscheme"] = "tricky"
        pool = list(TRICKY_NAMES)
        rng.shuffle(pool)
        W["keys"] = pool[:n] + make_ids(rng, max(0, n - len(pool)))
        if inputs in ("str", "path"):
            W["gz"] = [k for k in W["keys"] if k in ("next", "box", "sofa_t", "matt")][:2]
    W["payload"] = {k: "%08x" % rng.getrandbits(32) for k in W["keys"]}
    pattern = rng.choice(["mixed", "mixed", "mixed", "mixed", "all-ok", "all-fail", "single-fail"])
    if inputs in ("items", "values"):
        W["steps"] = []
        # which inputs are falsy (a zero-length object / a falsy python value)
        W["falsy"] = sorted(rng.sample(range(n), rng.choice([0, 1, 1, 2]) if n > 1 else rng.choice([0, 1])))
        W["falsy_vals"] = rng.sample(FALSY_VALUES, len(W["falsy"]))
        failing = [i for i in range(n) if i not in W["falsy"] and rng.random() < 0.3]
        if inputs == "values":
            W["entry"] = "as_completed"
            vals = value_inputs(W)
            W["plan"] = {repr(vals[i]): {"mode": "exc"} for i in failing}
        else:
            # exc at 0: the step itself raises; strip: a valid result without a source of its own; exc at 1: such a
            # result, then the next step raises (so the failure has no source either)
            W["plan"] = {}
            for i in failing:
                m = rng.choice([("exc", 0), ("exc", 0), ("strip", 0), ("exc", 1)]) if W["entry"] in ("apply_to", "call") else ("exc", 0)
                W["plan"][W["keys"][i]] = {"mode": m[0], "at": m[1], "variant": "ValueError"}
    else:
        W["plan"] = make_plan(rng, W["keys"], steps, pattern)
        if W["entry"] == "call":
            # called directly, the writer derives the identifier from the value; the value "" is its own (empty)
            # source, write_db then files it under the identifier "" and DataStoreSqlite.write(unique_id="") drops
            # every not-completed record (reported separately; not a per-record outcome of the property)
            for p in W["plan"].values():
                if p["mode"] == "falsy" and p["variant"] == "empty-str":
                    p["variant"] = "zero"
        W["falsy"] = []
    return W


FALSY_VALUES = [0, 0.0, False, [], {}]


def value_inputs(W):
    """raw python values for the as_completed entry; unique, the falsy ones at the planned positions"""
    vals = []
    for i, k in enumerate(W["keys"]):
        if i in W["falsy"]:
            vals.append(W["falsy_vals"][W["falsy"].index(i)])
        else:
            vals.append([f"v-{k}", i + 1] if i % 3 == 0 else (f"v-{k}" if i % 3 == 1 else float(i) + 0.5))
    return vals


class World:
    """directories and input objects of one workload"""

    def __init__(self, W):
        self.W = W
        self.base = tempfile.mkdtemp(prefix="c14-", dir=os.getcwd())
        self.indir = os.path.join(self.base, "in")
        os.makedirs(self.indir)
        for k in W["keys"]:
            os.makedirs(os.path.dirname(self.path_of(k)), exist_ok=True)
            text = json.dumps({"key": k, "payload": W["payload"][k]})
            if k in W.get("gz", ()):
                import gzip

                with gzip.open(self.path_of(k), "wt") as f:
                    f.write(text)
                continue
            with open(self.path_of(k), "w") as f:
                f.write(text)
        self.count = 0

    def path_of(self, k):
        if self.W.get("layout") == "subdirs":
            # key = shared file name + the directory's letter
            grp = {v: g for g, v in A.GROUPS.items()}[k[-1]]
            return os.path.join(self.indir, grp, k[:-1] + A.IN_SUFFIX)
        return os.path.join(self.indir, k + A.IN_SUFFIX + (".gz" if k in self.W.get("gz", ()) else ""))

    def inputs(self):
        """(what is handed to cogent3, [input object per key in submission order], keys in submission order)"""
        from cogent3.app.data_store import DataStoreDirectory

        W = self.W
        kind = W["inputs"]
        keys = list(W["keys"])
        if kind == "str":
            objs = [self.path_of(k) for k in keys]
            return objs, objs, keys
        if kind == "path":
            import pathlib

            objs = [pathlib.Path(self.path_of(k)) for k in keys]
            return objs, objs, keys
        if kind in ("member", "dstore"):
            ds = DataStoreDirectory(self.indir, suffix="txt")
            members = list(ds.completed)
            keys = [A.key_of(m) for m in members]
            if kind == "member":
                # submission order = the order of W["keys"]
                by = {A.key_of(m): m for m in members}
                keys = list(W["keys"])
                objs = [by[k] for k in keys]
                return objs, objs, keys
            return ds, members, keys
        if kind == "items":
            objs = [A.Item(k + A.IN_SUFFIX, W["payload"][k], size=0 if i in W["falsy"] else 1 + i % 3) for i, k in enumerate(keys)]
            return objs, objs, keys
        if kind == "values":
            objs = value_inputs(W)
            return objs, objs, [repr(v) for v in objs]
        raise ValueError(kind)

    def new_run_dir(self):
        self.count += 1
        d = os.path.join(self.base, f"run{self.count}")
        os.makedirs(d)
        return d

    def close(self):
        shutil.rmtree(self.base, ignore_errors=True)


# ---------------------------------------------------------------------------
# the model of one record's outcome (from the plan only)


def expected(W, names, key, src_text):
    """('completed', canonical content) or ('nc', type, origin, message-needles, source or <no demand>)"""
    fname = os.path.basename(src_text)
    p = W["plan"].get(key)
    steps = W["steps"]
    ok_content = {"key": key, "payload": W["payload"][key], "source": src_text, "trail": list(names)}
    for s_ in steps:
        if s_ in A.PLANLESS:
            # function-defined steps configured with mutable arguments: what they add depends on this record only
            field, value = A.fn_expected(s_, key)
            ok_content[field] = value
    if steps and steps[-1] == "seqs":
        ok_content = {key: A.dna_of(W["payload"][key])}
    if not p or p["mode"] == "ok":
        return {"kind": "completed", "content": canon(ok_content), "last_start": len(steps)}
    j, mode, var = p["at"], p["mode"], p["variant"]
    if mode == "exc":
        needles = [var] + ([A.exc_text(key)] if var != "ZeroDivisionError" else [])
        return {"kind": "nc", "type": "ERROR", "origin": names[j], "needles": needles, "source": fname, "last_start": j}
    if mode == "none":
        return {"kind": "nc", "type": "BUG", "origin": names[j], "needles": [], "source": fname, "last_start": j}
    if mode == "nc":
        return {
            "kind": "nc",
            "type": "PLANNED" if var == "type-custom" else "FAIL",
            "origin": names[j] if var == "origin-instance" else "planned-origin",
            "needles": [A.nc_text(key)],
            "exact_message": A.nc_text(key),
            "source": fname,
            "last_start": j,
        }
    if mode == "empty":
        # a zero-length value that still carries the source: the first typed step behind it rejects it, and the
        # failure must name the source although the value is falsy
        for k in range(j + 1, len(steps) + 1):
            if steps[k - 1] in A.TYPED:
                return {"kind": "nc", "type": "ERROR", "origin": names[k], "needles": [], "source": fname, "last_start": j}
        raise RuntimeError("harness: 'empty' planned without a typed step behind it")
    # a wrong-typed / falsy value travels on: untyped steps hand it on, the first typed step decides
    val = A.wrong_value(var, key, src_text) if mode == "wrong" else A.falsy_value(var)
    for k in range(j + 1, len(steps) + 1):
        if steps[k - 1] in A.TYPED:
            if isinstance(val, dict):
                continue  # {} is a dict: accepted, handed on unchanged by the step (no key to plan on)
            if isinstance(val, (list, tuple, set)) and len(val) == 0:
                return {"kind": "nc", "type": "ERROR", "origin": names[k], "needles": [], "source": NO_DEMAND, "last_start": j}
            first = next(iter(val)) if isinstance(val, (list, tuple, set)) else val
            src = fname if isinstance(first, str) and first else NO_DEMAND
            return {"kind": "nc", "type": "ERROR", "origin": names[k], "needles": [], "source": src, "last_start": j}
    if W["entry"] == "apply_to" and not writer_accepts(W["store"], val):
        # the value reaches the writer, which cannot store it: a per-record failure naming the writer
        return {"kind": "nc", "type": "ERROR", "origin": WRITER_NAME[W["store"]], "needles": [], "source": fname, "last_start": j, "writer_level": True}
    return {"kind": "completed", "content": canon(val), "last_start": j}


WRITER_NAME = {"dir": "write_json", "sql": "write_db", "fasta": "write_seqs"}


def writer_accepts(store, val):
    if store == "sql":
        return True  # pickles anything we produce
    if store == "fasta":
        return False  # write_seqs needs a sequence collection; every wrong / falsy value here is something else
    try:
        json.dumps(val)
        return True
    except TypeError:
        return False


NO_DEMAND = "<no demand: the value reaching the failing step carries no source>"


def canon(x):
    return json.dumps(x, sort_keys=True, default=lambda o: {"<set>": sorted(o)} if isinstance(o, (set, frozenset)) else repr(o))


def canon_result(r):
    """canonical (kind, content) of a value returned by a chain"""
    from cogent3.app.composable import NotCompleted

    if isinstance(r, NotCompleted):
        return ("nc", canon([r.type, r.origin, r.message, r.source]))
    if hasattr(r, "to_dict") and hasattr(r, "moltype"):
        r = {k: str(v) for k, v in r.to_dict().items()}  # a sequence collection
    elif hasattr(r, "to_rich_dict"):
        r = r.to_rich_dict()
    return ("completed", canon(r))


# ---------------------------------------------------------------------------
# reading the final store with plain python


def read_dir_store(path):
    recs, logs = [], []
    for fn in sorted(os.listdir(path)):
        p = os.path.join(path, fn)
        if os.path.isfile(p):
            stem, ext = os.path.splitext(fn)
            try:
                if ext == ".fasta":
                    seqs, name = {}, None
                    for line in open(p).read().splitlines():
                        if line.startswith(">"):
                            name = line[1:].strip()
                            seqs[name] = ""
                        elif line.strip():
                            seqs[name] += line.strip()
                    content, inner = canon(seqs), None
                else:
                    d = json.load(open(p))
                    content = canon(json.loads(d["data"]))
                    inner = d.get("identifier")
            except Exception as e:  # noqa: BLE001
                content, inner = f"<unreadable {type(e).__name__}>", None
            recs.append({"id": stem, "kind": "completed", "content": content, "inner_id": inner, "ext": ext})
    nc = os.path.join(path, "not_completed")
    if os.path.isdir(nc):
        for fn in sorted(os.listdir(nc)):
            stem, ext = os.path.splitext(fn)
            try:
                d = json.load(open(os.path.join(nc, fn)))
                a = d["not_completed_construction"]
                content = canon(list(a["args"]) + [a["kwargs"].get("source")])
            except Exception as e:  # noqa: BLE001
                content = f"<unreadable {type(e).__name__}>"
            recs.append({"id": stem, "kind": "nc", "content": content, "inner_id": None, "ext": ext})
    lg = os.path.join(path, "logs")
    if os.path.isdir(lg):
        logs = sorted(os.listdir(lg))
    return recs, logs


def read_sql_store(path):
    recs, logs = [], []
    con = sqlite3.connect(f"file:{path}?mode=ro", uri=True)
    try:
        for rid, is_c, data in con.execute("SELECT record_id, is_completed, data FROM results ORDER BY record_id"):
            try:
                obj = pickle.loads(data)
                if not is_c:
                    a = obj["not_completed_construction"]
                    content = canon(list(a["args"]) + [a["kwargs"].get("source")])
                else:
                    content = canon(obj)
            except Exception as e:  # noqa: BLE001
                content = f"<unreadable {type(e).__name__}>"
            recs.append({"id": rid, "kind": "completed" if is_c else "nc", "content": content, "inner_id": None, "ext": ""})
        logs = [r[0] for r in con.execute("SELECT log_name FROM logs WHERE log_name IS NOT NULL")]
    finally:
        con.close()
    return recs, logs


# ---------------------------------------------------------------------------
# schedule forcing


def target_order(target, n, rng):
    idx = list(range(n))
    if target == "identity":
        return idx
    if target == "reverse":
        return idx[::-1]
    if target == "first-last":
        return idx[1:] + idx[:1]
    if target == "last-first":
        return idx[-1:] + idx[:-1]
    if target == "evens-odds":
        return idx[0::2] + idx[1::2]
    rng.shuffle(idx)
    return idx


def deadlines(order, gap):
    d = [0.0] * len(order)
    for rank, i in enumerate(order):
        d[i] = round(gap * rank, 4)
    return d


def predict(d, w):
    """greedy list scheduling with absolute deadlines: completion order the forcing should realise"""
    free = [0.0] * max(1, w)
    heapq.heapify(free)
    fin = []
    for i, di in enumerate(d):
        f = heapq.heappop(free)
        t = max(f + 1e-4, di)
        heapq.heappush(free, t)
        fin.append((t, i))
    return [i for _, i in sorted(fin)]


def order_class(order):
    n = len(order)
    idx = list(range(n))
    if order == idx:
        return "identity" if n > 1 else "single"
    if order == idx[::-1]:
        return "reverse"
    if order == idx[1:] + idx[:1]:
        return "first-last"
    if order == idx[-1:] + idx[:-1]:
        return "last-first"
    if order == idx[0::2] + idx[1::2]:
        return "evens-odds"
    inv = sum(1 for a in range(n) for b in range(a + 1, n) if order[a] > order[b])
    frac = inv / (n * (n - 1) / 2)
    return "other-" + ("few" if frac < 0.34 else "half" if frac < 0.67 else "many") + "-inversions"


def gate_keeper(log, gate, need, stop, max_wait=40.0, stall=8.0):
    """opens the gate when `need` first-step `start` events are in the history (every worker process that will get a
    task holds one), or when the count stopped growing (fewer tasks than expected, e.g. inputs were dropped)"""
    t_end = time.monotonic() + max_wait
    seen, t_last = 0, None
    while not stop.is_set():
        n = 0
        try:
            with open(log) as f:
                for line in f:
                    if '"ev": "start"' in line and '"step": 0' in line:
                        n += 1
        except OSError:
            pass
        now = time.monotonic()
        if n > seen:
            seen, t_last = n, now
        if n >= need or now > t_end or (t_last is not None and now - t_last > stall):
            break
        time.sleep(0.01)
    tmp = gate + ".tmp"
    with open(tmp, "w") as f:
        f.write(repr(time.monotonic() + 0.05))
    os.replace(tmp, gate)


# ---------------------------------------------------------------------------
# running one history against the real code


def build_process(W, plan, log, gate):
    """the composed chain without writer, and the step class names by position"""
    if W["inputs"] == "items":
        return A.c14_item_step(plan=plan, log=log, gate=gate) + A.c14_gamma(pos=1, plan=plan, log=log), ["c14_item_step", "c14_gamma"]
    if W["inputs"] == "values":
        return A.c14_scale(plan=plan, log=log, gate=gate), ["c14_scale"]
    return A.build_chain(W["steps"], plan, log, gate)


def open_store(W, run_dir, mode="w"):
    from cogent3.app.data_store import DataStoreDirectory
    from cogent3.app.io import write_db, write_json
    from cogent3.app.sqlite_data_store import DataStoreSqlite

    if W["store"] == "dir":
        path = os.path.join(run_dir, "out")
        out = DataStoreDirectory(path, mode=mode, suffix="json")
        return out, write_json(out), path
    if W["store"] == "fasta":
        from cogent3.app.io import write_seqs

        path = os.path.join(run_dir, "out")
        out = DataStoreDirectory(path, mode=mode, suffix="fasta")
        return out, write_seqs(out, format="fasta"), path
    path = os.path.join(run_dir, "out.sqlitedb")
    out = DataStoreSqlite(path, mode=mode)
    return out, write_db(out), path


def wrap_store(out, log):
    for name, kind in (("write", "completed"), ("write_not_completed", "nc")):
        orig = getattr(out, name)

        def w(*, unique_id, data, _orig=orig, _kind=kind):
            A.emit(log, ev="write", id=str(unique_id), kind=_kind)
            return _orig(unique_id=unique_id, data=data)

        setattr(out, name, w)


def result_key(W, r):
    """which input a yielded result claims to belong to (its source)"""
    try:
        src = r.source
    except Exception:  # noqa: BLE001
        return None
    if W["inputs"] == "values":
        return repr(src)
    if isinstance(src, A.Item):
        src = src.source  # the result is a proxy around an input that carries its own source
    return A.key_of(src) if src is not None else None


def wrap_as_completed(W, app, log, sink=None):
    cls_ac = type(app).as_completed

    def rec(dstore, **kw):
        for k, r in enumerate(cls_ac(app, dstore, **kw)):
            A.emit(log, ev="yield", k=k, key=result_key(W, r))
            if sink is not None:
                sink.append(r)
            yield r

    app.as_completed = rec


def run_history(W, world, plan, parallel=False, workers=None, delays=None, store_path=None, subset=None, chunksize=None):
    """one call of apply_to / as_completed on the real code. Returns the observation dict."""
    run_dir = os.path.dirname(store_path) if store_path else world.new_run_dir()
    log = os.path.join(run_dir, f"history-{world.count}-{time.monotonic_ns()}.jsonl")
    gate = os.path.join(run_dir, f"gate-{time.monotonic_ns()}") if parallel else None
    handed, objs, keys = world.inputs()
    if subset is not None:
        pick = [i for i, k in enumerate(keys) if k in subset]
        objs = [objs[i] for i in pick]
        keys = [keys[i] for i in pick]
        handed = objs
    run_plan = {k: dict(v) for k, v in plan.items()}
    if delays:
        for k, d in zip(keys, delays):
            run_plan.setdefault(k, {})["delay"] = d
    proc, names = build_process(W, run_plan, log, gate)
    obs = {"keys": keys, "objs": objs, "names": names, "raised": None, "results": None, "log": log, "parallel": parallel, "workers": workers}
    for k in keys:
        A.emit(log, ev="submit", key=k)
    stop = threading.Event()
    th = None
    if parallel:
        # inputs cogent3 is known to drop (falsy ones) never start: do not wait for them
        need = max(1, min(workers, sum(1 for x in objs if _truthy(x))))
        th = threading.Thread(target=gate_keeper, args=(log, gate, need, stop), daemon=True)
        th.start()
    kw = {"parallel": True, "par_kw": {"max_workers": workers}} if parallel else {"parallel": False}
    if parallel and chunksize is not None:
        kw["par_kw"]["chunksize"] = chunksize
    out = None
    try:
        if W["entry"] == "call":
            out, writer, path = open_store(W, run_dir, mode="w")
            obs["store_path"] = path
            wrap_store(out, log)
            app = proc + writer
            returned = []
            try:
                for x in objs:
                    r = app(x)
                    returned.append((type(r).__name__, str(getattr(r, "unique_id", "")), repr(r)[:200]))
            except Exception as e:  # noqa: BLE001
                obs["raised"] = e
            obs["returned"] = returned
            try:
                obs["api_completed"] = sorted(str(m.unique_id) for m in out.completed)
                obs["api_nc"] = sorted(str(m.unique_id) for m in out.not_completed)
            except Exception as e:  # noqa: BLE001
                obs["api_error"] = repr(e)
        elif W["entry"] == "apply_to":
            out, writer, path = open_store(W, run_dir, mode="w" if store_path is None else "a")
            obs["store_path"] = path
            wrap_store(out, log)
            app = proc + writer
            wrap_as_completed(W, app, log)
            try:
                if W.get("idfn"):
                    kw["id_from_source"] = A.ID_FUNCS[W["idfn"]]
                app.apply_to(handed, show_progress=False, logger=None if W.get("logger") else False, **kw)
            except Exception as e:  # noqa: BLE001
                obs["raised"] = e
            try:
                obs["api_completed"] = sorted(str(m.unique_id) for m in out.completed)
                obs["api_nc"] = sorted(str(m.unique_id) for m in out.not_completed)
            except Exception as e:  # noqa: BLE001
                obs["api_error"] = repr(e)
        else:
            results = []
            try:
                for k, r in enumerate(proc.as_completed(handed, show_progress=False, **kw)):
                    A.emit(log, ev="yield", k=k, key=result_key(W, r))
                    results.append(r)
            except Exception as e:  # noqa: BLE001
                obs["raised"] = e
            obs["results"] = results
    finally:
        stop.set()
        if th is not None:
            th.join(timeout=5)
        if out is not None and hasattr(out, "close"):
            try:
                out.close()
            except Exception:  # noqa: BLE001
                pass
    obs["events"] = A.read_log(log)
    if has_store(W):
        reopen_listing(W, obs)
        try:
            obs["records"], obs["logs"] = read_sql_store(obs["store_path"]) if W["store"] == "sql" else read_dir_store(obs["store_path"])
        except Exception as e:  # noqa: BLE001
            obs["records"], obs["logs"] = [], []
            obs["store_unreadable"] = repr(e)
    else:
        recs = []
        for r in obs["results"]:
            kind, content = canon_result(getattr(r, "obj", r) if type(r).__name__ == "source_proxy" else r)
            recs.append({"id": result_key(W, r), "kind": kind, "content": content, "inner_id": None, "ext": ""})
        obs["records"], obs["logs"] = recs, []
    return obs


def has_store(W):
    return W["entry"] in ("apply_to", "call")


def reopen_listing(W, obs):
    """what a FRESH store object, opened read-only on the finished store, lists"""
    from cogent3.app.data_store import DataStoreDirectory
    from cogent3.app.sqlite_data_store import DataStoreSqlite

    try:
        if W["store"] == "sql":
            ro = DataStoreSqlite(obs["store_path"], mode="r")
        else:
            ro = DataStoreDirectory(obs["store_path"], mode="r", suffix="fasta" if W["store"] == "fasta" else "json")
        obs["reopen_completed"] = sorted(str(m.unique_id) for m in ro.completed)
        obs["reopen_nc"] = sorted(str(m.unique_id) for m in ro.not_completed)
        if hasattr(ro, "close"):
            ro.close()
    except Exception as e:  # noqa: BLE001
        obs["reopen_error"] = repr(e)


def _truthy(x):
    try:
        return bool(x)
    except Exception:  # noqa: BLE001
        return True


def solo_outcomes(W, plan, objs, keys):
    """the chain called on each input alone, in this process, without delays or logging"""
    out = {}
    for k, x in zip(keys, objs):
        proc, _ = build_process(W, plan, None, None)
        try:
            out[k] = canon_result(proc(x))
        except Exception as e:  # noqa: BLE001
            out[k] = ("raised", repr(e))
    return out


# ---------------------------------------------------------------------------
# the offline checker


def describe(W, obs, **extra):
    d = {
        "workload": {k: W.get(k) for k in ("n", "steps", "store", "entry", "inputs", "logger", "keys", "plan", "falsy", "falsy_vals", "payload", "idfn", "layout", "keyscheme", "gz")},
        "parallel": obs["parallel"],
        "workers": obs["workers"],
        "submitted": obs["keys"],
    }
    d.update(extra)
    return d


def is_falsy_input(W, obs, key):
    i = obs["keys"].index(key)
    x = obs["objs"][i]
    try:
        return not bool(x)
    except Exception:  # noqa: BLE001
        return False


def src_text_of(W, obs, key):
    x = obs["objs"][obs["keys"].index(key)]
    if W["inputs"] == "items":
        return x.source
    return str(x)


def expected_for(W, obs, plan, key):
    """model outcome of one record for the loader-chain workloads, and for the items/values workloads"""
    names = obs["names"]
    if W["inputs"] == "items":
        x = obs["objs"][obs["keys"].index(key)]
        p = plan.get(key) or {}
        if p.get("mode") == "exc" and p.get("at", 0) == 0:
            return {"kind": "nc", "type": "ERROR", "origin": "c14_item_step", "needles": ["ValueError", A.exc_text(key)], "source": x.source, "last_start": 0}
        if p.get("mode") == "exc":
            return {"kind": "nc", "type": "ERROR", "origin": "c14_gamma", "needles": ["ValueError", A.exc_text(key)], "source": NO_DEMAND, "last_start": 1, "sourceless": True}
        if p.get("mode") == "strip":
            return {"kind": "completed", "content": canon({"key": key, "payload": x.payload + "+", "trail": ["c14_item_step", "c14_gamma"]}), "last_start": 1, "sourceless": True}
        return {"kind": "completed", "content": canon({"source": x.source, "payload": x.payload + "+", "size": x.size}), "last_start": 0}
    if W["inputs"] == "values":
        x = obs["objs"][obs["keys"].index(key)]
        if plan.get(key, {}).get("mode") == "exc":
            return {"kind": "nc", "type": "ERROR", "origin": "c14_scale", "needles": ["ValueError", A.exc_text(key)], "source": NO_DEMAND, "last_start": 0}
        return {"kind": "completed", "content": canon({"got": x, "cls": type(x).__name__}), "last_start": 0}
    WW = dict(W)
    WW["plan"] = plan
    return expected(WW, names, key, src_text_of(W, obs, key))


def check_history(res, W, obs, plan, label, prior=None, replay=None):
    """decides one history. `prior`: records (by key) already in the store before this call (resumed run)"""
    prior = prior or {}
    keys = obs["keys"]
    ev = obs["events"]
    det = lambda **kw: describe(W, obs, replay_case=replay, plan_used=plan, history=label, **kw)  # noqa: E731
    n_fail = 0

    # (4) never raises for per-record failures
    res.evals += 1
    if obs["raised"] is not None:
        e = obs["raised"]
        # which record was being handled: the last one yielded but not written (or, if its source is unknown, the
        # first submitted one that was not written)
        written_ids = set()
        for x in ev:
            if x["ev"] == "write":
                written_ids.add(x["id"][:-5] if x["id"].endswith(".json") else x["id"])
        written = {k for k in keys if store_id(W, obs, k) in written_ids}
        ys = [x["key"] for x in ev if x["ev"] == "yield"]
        culprit = ys[-1] if ys and ys[-1] in keys and ys[-1] not in written else None
        if culprit is None:
            culprit = next((k for k in keys if k not in written and not is_falsy_input(W, obs, k)), None)
        exp = expected_for(W, obs, plan, culprit) if culprit is not None else {}
        res.count("run-raised")
        if exp.get("writer_level"):
            res.count("writer-level:reached")
        if exp.get("sourceless"):
            mech = "C14/apply_to/input-with-own-source-not-proxied/record-without-source-aborts-run"
        elif exp.get("writer_level"):
            mech = "C14/apply_to/result-rejected-by-writer-aborts-run"
        elif isinstance(e, ValueError) and "non-unique" in str(e) and len({store_id(W, obs, k) for k in keys}) == len(keys):
            # the identifiers (by the harness' own rule) are all different
            mech = "C14/apply_to/distinct-sources-reported-as-non-unique-identifiers"
        else:
            mech = exc_mechanism(f"C14/{W['entry']}/{label}", e)
        res.witness(mech, **det(error=repr(e)[:400], record_being_handled=culprit, expected=exp, records_written=sorted(written)))
        return None
    if obs.get("store_unreadable"):
        res.witness("C14/store/unreadable-after-run", **det(error=obs["store_unreadable"]))
        return None

    by_id = {}
    for r in obs["records"]:
        by_id.setdefault(r["id"], []).append(r)
    solo = solo_outcomes(W, plan, obs["objs"], keys)
    exp_all = {k: expected_for(W, obs, plan, k) for k in keys}
    content_owner = {}
    for k in keys:
        if exp_all[k]["kind"] == "completed":
            content_owner.setdefault(exp_all[k]["content"], k)

    yields = {}
    for e in ev:
        if e["ev"] == "yield":
            yields[e["key"]] = yields.get(e["key"], 0) + 1
    writes = {}
    for e in ev:
        if e["ev"] == "write":
            wid = e["id"][:-5] if e["id"].endswith(".json") else e["id"]
            writes.setdefault(wid, []).append(e["kind"])
    starts = {}
    for e in ev:
        if e["ev"] == "start":
            starts.setdefault(e["key"], []).append(e["step"])
    open_calls = {}
    for e in ev:
        if e["ev"] == "start":
            open_calls[(e["key"], e["step"], e["pid"])] = open_calls.get((e["key"], e["step"], e["pid"]), 0) + 1
        elif e["ev"] == "finish":
            open_calls[(e["key"], e["step"], e["pid"])] = open_calls.get((e["key"], e["step"], e["pid"]), 0) - 1

    # the identifier each input's record must be stored under: the id_from_source given to apply_to decides
    sid = {k: store_id(W, obs, k) for k in keys}
    default_sid = {k: store_id(W, obs, k, variant=None) for k in keys}
    if has_store(W):
        res.count("keys:" + W.get("keyscheme", "plain") + "/" + W["store"] + "/" + label)
    if W["entry"] == "apply_to":
        res.count("id_from_source:" + (W.get("idfn") or "default") + ("/default-would-collide" if len(set(default_sid.values())) < len(keys) else ""))
    writes = {k: writes.get(sid[k]) for k in keys}
    final = {}
    for k in keys:
        exp = exp_all[k]
        recs = by_id.get(sid[k], [])
        if W["entry"] == "call" and not identifiable(exp):
            # called directly, the writer has only the value to take the identifier from: nothing is demanded for
            # a value (or failure) that legitimately carries no source
            res.count("call:value-without-source")
            if recs:
                final[k] = recs[0]
            continue
        if not recs and sid[k] != default_sid[k] and by_id.get(default_sid[k]):
            res.evals += 1
            res.witness(
                "C14/conservation/record-not-under-the-id_from_source-identifier",
                **det(key=k, expected_identifier=sid[k], found_under=default_sid[k], records=by_id[default_sid[k]][:2]),
            )
            continue
        # resumed run: apply_to is append-only. A completed input is skipped; an input that has a not-completed
        # record is either skipped as well (sqlite: the record counts as a member) or run again (directory store).
        # Both are accepted, as long as a skipped record is untouched.
        was_done = k in prior and (prior[k]["kind"] == "completed" or not starts.get(k))
        res.count("records-checked")
        # ---- (1) conservation
        res.evals += 1
        if not recs:
            if is_falsy_input(W, obs, k) and not starts.get(k):
                res.count("falsy-input:dropped")
                res.witness(
                    "C14/conservation/falsy-input-silently-skipped",
                    **det(key=k, input=repr(obs["objs"][keys.index(k)])[:100], got="no record, no yield, never executed", expected=exp),
                )
            else:
                res.witness("C14/conservation/input-without-record", **det(key=k, expected=exp, yields=yields.get(k, 0), starts=starts.get(k)))
            continue
        if len(recs) > 1:
            kinds = sorted(r["kind"] for r in recs)
            cls = "both-completed-and-not-completed" if len(set(kinds)) > 1 else "duplicate-record"
            res.witness(f"C14/conservation/{cls}", **det(key=k, records=recs, expected=exp))
            continue
        rec = recs[0]
        final[k] = rec
        if is_falsy_input(W, obs, k):
            res.count("falsy-input:recorded")
        if was_done:
            # append-only: an input already completed is skipped, its record must be untouched
            res.evals += 1
            res.count("resume:kept-" + ("completed" if prior[k]["kind"] == "completed" else "not-completed"))
            if (rec["kind"], rec["content"]) != (prior[k]["kind"], prior[k]["content"]) or starts.get(k):
                res.witness("C14/resume/completed-record-touched", **det(key=k, before=prior[k], after=rec, starts=starts.get(k)))
            continue
        # ---- history: one yield, one write
        res.evals += 1
        if k in prior:
            res.count("resume:not-completed-run-again")
        if W["entry"] != "call" and yields.get(k, 0) != 1:
            res.witness("C14/conservation/yield-count-not-one", **det(key=k, yields=yields.get(k, 0)))
        if W["entry"] == "call":
            res.evals += 1
            res.count("call:record-checked")
            ret = obs["returned"][keys.index(k)] if keys.index(k) < len(obs["returned"]) else None
            if ret is None or ret[0] != "DataMember" or ret[1] != sid[k]:
                res.witness("C14/call/returned-value-is-not-the-stored-member", **det(key=k, returned=ret, record=rec))
        if has_store(W):
            res.evals += 1
            if len(writes.get(k) or []) != 1 or writes[k][0] != rec["kind"]:
                res.witness("C14/conservation/write-events-disagree-with-store", **det(key=k, writes=writes.get(k), record=rec))
            if rec["inner_id"] is not None:
                res.evals += 1
                if rec["inner_id"] != sid[k]:
                    res.witness("C14/association/identifier-inside-record-differs", **det(key=k, record=rec))
        # ---- (2) association: model, then the chain on that input alone
        res.evals += 1
        res.count("outcome:" + (plan.get(k, {}).get("mode") or "ok"))
        if rec["kind"] != exp["kind"]:
            res.witness(f"C14/association/{exp['kind']}-expected-{rec['kind']}-stored", **det(key=k, record=rec, expected=exp))
            continue
        if exp["kind"] == "completed":
            if rec["content"] != exp["content"]:
                other = content_owner.get(rec["content"])
                cls = "record-holds-another-inputs-result" if other and other != k else "content-differs-from-model"
                try:
                    g, w = json.loads(rec["content"]), json.loads(exp["content"])
                    strip = lambda d: {a: b for a, b in d.items() if a not in ("cfg", "cfg2")}  # noqa: E731
                    if isinstance(g, dict) and isinstance(w, dict) and strip(g) == strip(w):
                        # only what the function-defined steps report about their configured arguments differs
                        cls = "function-app-configured-argument-carries-other-records"
                except ValueError:
                    pass
                res.witness(f"C14/association/{cls}", **det(key=k, record=rec, expected=exp, belongs_to=other))
                continue
        else:
            n_fail += 1
            typ, origin, message, source = json.loads(rec["content"])
            # ---- (3) failure record names step, message, source
            res.evals += 1
            if origin != exp["origin"]:
                res.witness("C14/failure-record/origin-is-not-the-failing-step", **det(key=k, record=rec, expected=exp))
            elif "exact_message" in exp and typ != exp["type"]:
                # only for a NotCompleted the step itself returned: it must arrive unchanged, type included
                res.witness("C14/pass-through/not-completed-type-changed", **det(key=k, record=rec, expected=exp))
            res.evals += 1
            if not isinstance(message, str) or not message or any(nd not in message for nd in exp["needles"]) or ("exact_message" in exp and message != exp["exact_message"]):
                res.witness("C14/failure-record/message-lost", **det(key=k, record=rec, expected=exp))
            if exp["source"] != NO_DEMAND:
                res.evals += 1
                if source != exp["source"]:
                    other = source if source in {os.path.basename(src_text_of(W, obs, o)) for o in keys if o != k} else None
                    cls = "source-of-another-input" if other else ("source-missing" if source is None else "source-wrong")
                    res.witness(f"C14/failure-record/{cls}", **det(key=k, record=rec, expected=exp))
            else:
                res.count("source-not-demanded")
        res.evals += 1
        if exp.get("writer_level"):
            res.count("writer-level:reached")
            res.count("writer-level-failure-recorded")
        elif solo[k] != (rec["kind"], rec["content"]):
            res.witness("C14/association/differs-from-app-on-that-input-alone", **det(key=k, record=rec, alone=solo[k]))
        # ---- (5) pass-through seen from the history: no step after the planned one ran for this record
        if W["inputs"] not in ("items", "values"):
            res.evals += 1
            st = sorted(starts.get(k, []))
            want = list(range(exp["last_start"] + 1))
            if st != want:
                if set(st) - set(want):
                    res.witness("C14/pass-through/step-ran-after-failure", **det(key=k, start_steps=st, expected_steps=want, planned=plan.get(k)))
                elif len(st) > len(set(st)):
                    res.count("history:record-executed-more-than-once")
                else:
                    res.witness("C14/history/step-never-ran", **det(key=k, start_steps=st, expected_steps=want, planned=plan.get(k)))
    # observer events: every NotCompleted the observer saw is the one that was finally recorded
    nc_final = {}
    for k, rec in final.items():
        if rec["kind"] == "nc":
            nc_final.setdefault(rec["content"], k)
    for e in ev:
        if e["ev"] == "saw-nc":
            res.evals += 1
            res.count("pass-through:observed")
            c = canon([e["type"], e["origin"], e["message"], e["source"]])
            if W["entry"] == "call" and e["source"] is None:
                res.count("call:value-without-source")  # the writer cannot file it: no record to compare with
            elif c not in nc_final:
                res.witness("C14/pass-through/not-completed-altered-after-observer", **det(saw=e, final_not_completed=sorted(nc_final)[:6]))
    # every started call finished (same process)
    res.evals += 1
    dangling = [k for k, v in open_calls.items() if v != 0]
    if dangling:
        res.witness("C14/history/start-without-finish", **det(dangling=dangling[:10]))
    # no extra records
    res.evals += 1
    known_ids = set(sid.values())
    extra = [r for r in obs["records"] if r["id"] not in known_ids]
    if extra:
        res.witness("C14/conservation/record-without-input", **det(extra=extra[:6]))
    extra_y = [k for k in yields if k not in set(keys)]
    if extra_y:
        res.witness("C14/conservation/yield-without-input", **det(extra=extra_y[:6]))
    # the store's own listing agrees with the disk (as sets of identifiers)
    if has_store(W) and "api_completed" in obs:
        res.evals += 1
        strip = lambda u: os.path.splitext(os.path.basename(u))[0] if W["store"] != "sql" else u  # noqa: E731
        api = {("completed", strip(u)) for u in obs["api_completed"]} | {("nc", strip(u)) for u in obs["api_nc"]}
        disk = {(r["kind"], r["id"]) for r in obs["records"]}
        if api != disk:
            res.witness("C14/store/listing-differs-from-disk", **det(api=sorted(api), disk=sorted(disk)))
        if W.get("logger"):
            res.count("apply_to:with-default-logger")  # the log is not a record: nothing demanded of it
        # ... and so does a fresh store object opened on the finished store
        res.evals += 1
        if "reopen_error" in obs:
            res.witness("C14/store/reopen-raises", **det(error=obs["reopen_error"]))
        else:
            res.count("store:reopened")
            reo = {("completed", strip(u)) for u in obs["reopen_completed"]} | {("nc", strip(u)) for u in obs["reopen_nc"]}
            if reo != disk:
                res.witness("C14/store/reopened-listing-differs-from-disk", **det(reopened=sorted(reo), disk=sorted(disk)))
            want = {(r["kind"], sid[k]) for k, r in final.items()}
            res.evals += 1
            if not want <= reo:
                res.witness("C14/conservation/record-missing-after-reopen", **det(missing=sorted(want - reo), reopened=sorted(reo)))
    elif "api_error" in obs:
        res.witness("C14/store/listing-raises", **det(error=obs["api_error"]))
    return {"final": final, "n_fail": n_fail}


def identifiable(exp):
    """direct call: can the writer derive an identifier from what reaches it?"""
    if exp.get("sourceless") or exp.get("writer_level"):
        return False
    if exp["kind"] == "nc":
        return exp["source"] != NO_DEMAND
    try:
        v = json.loads(exp["content"])
    except ValueError:
        return False
    return (isinstance(v, dict) and "source" in v) or (isinstance(v, str) and bool(v))


def calm_plan(W):
    """parallel histories: replace planned outcomes that (on the unchanged tree) abort the whole run, so that the
    history stays checkable record by record; the serial histories keep them"""
    if W["inputs"] == "items":
        for p in W["plan"].values():
            p.update({"mode": "exc", "at": 0})
        return
    if W["inputs"] == "values" or W["entry"] != "apply_to":
        return
    names = ["c14_load"] + [A.GENERIC[s].__name__ for s in W["steps"]]
    for k in list(W["plan"]):
        if expected(W, names, k, k + A.IN_SUFFIX).get("writer_level"):
            W["plan"][k] = {"at": W["plan"][k]["at"], "mode": "none", "variant": None}


def store_id(W, obs, key, variant="given"):
    """model of the identifier: the default strips directory and suffix; the custom ones as documented in c14_apps"""
    if W["inputs"] == "values":
        return key
    variant = W.get("idfn") if variant == "given" else variant
    text = src_text_of(W, obs, key)
    name = os.path.basename(text)
    # own rule (not cogent3's code): directory dropped; the trailing format suffix, or format + compression suffix,
    # removed; nothing else
    stem = name
    for sfx in (A.IN_SUFFIX + ".gz", A.IN_SUFFIX):
        if name.endswith(sfx):
            stem = name[: -len(sfx)]
            break
    if variant is None:
        return stem
    if variant == "upper":
        return stem.upper()
    if variant == "tagged":
        return stem + "_v2"
    if variant == "dir-name":
        return os.path.basename(os.path.dirname(text)) + "-" + stem
    raise ValueError(variant)


def realised_order(obs):
    """submission indices in the order results left as_completed"""
    pos = {k: i for i, k in enumerate(obs["keys"])}
    out = []
    for e in obs["events"]:
        if e["ev"] == "yield" and e["key"] in pos:
            out.append(pos[e["key"]])
    return out


def n_class(n):
    return "1" if n == 1 else "2-4" if n <= 4 else "5-8" if n <= 8 else "9-16" if n <= 16 else "17-24" if n <= 24 else "25-48" if n <= 48 else "49-80"


def pattern_class(W, plan, keys):
    modes = sorted({(plan.get(k, {}).get("mode") or "ok") for k in keys})
    return "+".join(modes)


# ---------------------------------------------------------------------------
# cases


def case_parallel(res, case):
    import hashlib

    rng = random.Random(case["seed"])
    W = case.get("workload") or make_workload(rng, case["n"], store=case["store"], entry=case["entry"], inputs=case["inputs"])
    W["logger"] = False
    calm_plan(W)
    workers = case["workers"]
    world = World(W)
    try:
        plan = W["plan"]
        # the serial companion first (also the reference for (6))
        ser = run_history(W, world, plan, parallel=False)
        replay = {"kind": "parallel", "seed": case["seed"], "workers": workers, "target": case["target"], "n": case["n"], "store": W["store"], "entry": W["entry"], "inputs": W["inputs"], "chunksize": case.get("chunksize")}
        s_out = check_history(res, W, ser, plan, "serial", replay=replay)
        res.count("histories:serial")
        n = len(ser["keys"])
        bursts = case["target"] == "bursts"
        order = target_order(case["target"], n, rng)
        # bursts: most tasks are instant, the others share a few deadlines, so that several tasks complete together
        levels = [rng.choice([0, 0, 0, 1, 2, 3]) for _ in range(n)]
        gap = case.get("gap", GAP0)
        par = None
        for attempt in range(4):
            d = [round(gap * lv, 4) for lv in levels] if bursts else deadlines(order, gap)
            par = run_history(W, world, plan, parallel=True, workers=workers, delays=d, chunksize=case.get("chunksize"))
            res.count("histories:parallel")
            got = realised_order(par)
            if got != list(range(len(got))) or order == list(range(n)) or workers == 1 or n < 2:
                break
            res.count("parallel:retry-with-doubled-gaps")
            gap *= 2
        p_out = check_history(res, W, par, plan, "parallel", replay=replay)
        got = realised_order(par)
        ranks = {v: i for i, v in enumerate(sorted(got))}
        oc = order_class([ranks[v] for v in got]) + ("" if len(got) == n else "(inputs-missing)")
        res.count(f"pair:workers={workers}/{oc}")
        res.count("order:" + hashlib.sha1(repr((n, got)).encode()).hexdigest()[:10])
        res.count("parallel:target-realised" if got == predict(d, workers) else "parallel:target-not-realised")
        if n > 4 * workers:
            res.count(f"many-inputs:workers={workers}/{W['store'] if has_store(W) else '-'}/" + ("n>8w" if n > 8 * workers else "n>4w"))
        c = case.get("chunksize")
        res.count(f"chunksize:{c}/n-mod-c={n % c}" + ("/single-input" if n == 1 else "/n=c+1" if n == c + 1 else "") if c else "chunksize:not-passed")
        pids = {e["pid"] for e in par["events"] if e["ev"] == "start"}
        res.count(f"parallel:worker-processes-used={min(len(pids), 8)}")
        if os.getpid() in pids:
            res.count("parallel:ran-in-parent")
        if got != list(range(len(got))):
            res.count("parallel:non-identity")
        else:
            res.count("parallel:identity")
        # (6) serial and parallel stores equal as sets of (id, kind, content)
        if s_out is not None and p_out is not None:
            res.evals += 1
            a = {(r["id"], r["kind"], r["content"]) for r in ser["records"]}
            b = {(r["id"], r["kind"], r["content"]) for r in par["records"]}
            if a != b:
                only_s, only_p = sorted(a - b)[:4], sorted(b - a)[:4]
                ids_s, ids_p = {x[0] for x in a}, {x[0] for x in b}
                cls = "different-identifiers" if ids_s != ids_p else "different-content"
                res.witness(f"C14/serial-vs-parallel/{cls}", **describe(W, par, replay_case=replay, only_serial=only_s, only_parallel=only_p))
        if s_out is not None and s_out["n_fail"] >= 1:
            res.sig(n_class(n), 0, "serial", pattern_class(W, plan, ser["keys"]), W["store"], W["entry"], W["inputs"])
        if p_out is not None and (p_out["n_fail"] >= 1 or got != list(range(len(got)))):
            res.sig(n_class(n), workers, oc, pattern_class(W, plan, par["keys"]), W["store"], W["entry"], W["inputs"])
        res.sample({"parallel": {"workers": workers, "target": case["target"], "deadlines": d, "realised": got, "steps": W["steps"], "plan": plan}})
    finally:
        world.close()


def case_serial(res, case):
    rng = random.Random(case["seed"])
    for h in range(case["n"]):
        hseed = rng.randrange(2**32)
        if "only" in case and case["only"] != h:
            continue
        hr = random.Random(hseed)
        n = hr.randint(1, case["max_inputs"])
        kind = hr.choice(["plain", "plain", "plain", "resume", "items", "values"])
        W = make_workload(hr, n, inputs={"items": "items", "values": "values"}.get(kind))
        if kind == "resume":
            W["entry"] = "apply_to"
            W["logger"] = False
        replay = {"kind": "serial", "seed": case["seed"], "n": case["n"], "max_inputs": case["max_inputs"], "only": h}
        world = World(W)
        try:
            res.count(f"histories:serial")
            res.count(f"serial:{kind}/{W['entry']}/{W['store'] if has_store(W) else '-'}/{W['inputs']}")
            if kind != "resume":
                obs = run_history(W, world, W["plan"])
                out = check_history(res, W, obs, W["plan"], "serial", replay=replay)
                if out is not None and out["n_fail"] >= 1:
                    res.sig(n_class(len(obs["keys"])), 0, "serial", pattern_class(W, W["plan"], obs["keys"]), W["store"], W["entry"], W["inputs"])
                if W["layout"] == "subdirs" and n >= 2:
                    # the same inputs with the DEFAULT identifiers collide: documented refusal (ValueError)
                    W2 = dict(W, idfn=None)
                    o2 = run_history(W2, world, W["plan"])
                    res.evals += 1
                    if isinstance(o2["raised"], ValueError):
                        res.refused += 1
                        res.count("default-identifiers-collide:refused")
                    else:
                        res.witness(
                            "C14/apply_to/colliding-identifiers-accepted" if o2["raised"] is None else exc_mechanism("C14/apply_to/colliding-identifiers", o2["raised"]),
                            **describe(W2, o2, replay_case=replay, records=o2["records"][:6], error=repr(o2["raised"])[:300]),
                        )
            else:
                # phase 1: a subset, with its own plan; phase 2: everything, same store (append-only semantics)
                keys = list(W["keys"])
                sub = set(hr.sample(keys, hr.randint(1, len(keys))))
                plan1 = make_plan(hr, keys, W["steps"], "mixed")
                o1 = run_history(W, world, plan1, subset=sub)
                r1 = check_history(res, W, o1, plan1, "serial", replay=replay)
                if r1 is not None:
                    o2 = run_history(W, world, W["plan"], store_path=o1["store_path"])
                    r2 = check_history(res, W, o2, W["plan"], "serial-resumed", prior=r1["final"], replay=replay)
                    if r2 is not None and r2["n_fail"] >= 1:
                        res.sig(n_class(len(o2["keys"])), 0, "serial-resumed", pattern_class(W, W["plan"], o2["keys"]), W["store"], W["entry"], W["inputs"])
            res.sample({"serial": {"kind": kind, "steps": W["steps"], "entry": W["entry"], "store": W["store"], "inputs": W["inputs"], "plan": W["plan"]}})
        finally:
            world.close()


def case_direct(res, case):
    """(5) without any store: a NotCompleted handed to a composed app comes back as the very same object"""
    from cogent3.app.composable import NotCompleted

    rng = random.Random(case["seed"])
    for _ in range(case["n"]):
        steps = rng.sample(["alpha", "beta", "gamma", "watch"], rng.randint(1, 4))
        first = A.GENERIC[steps[0]](pos=1)
        app = first
        for i, s in enumerate(steps[1:], start=2):
            app = app + A.GENERIC[s](pos=i)
        nc = NotCompleted(rng.choice(["FAIL", "ERROR", "BUG", "X"]), rng.choice(["somewhere", first]), f"msg-{rng.randrange(10**6)}", source=rng.choice([None, "a/b/c.txt"]))
        before = (nc.type, nc.origin, nc.message, nc.source)
        res.evals += 1
        res.count("direct:not-completed-through-chain")
        try:
            got = app(nc)
        except Exception as e:  # noqa: BLE001
            res.witness(exc_mechanism("C14/pass-through/direct", e), steps=steps, nc=before)
            continue
        if got is not nc or (got.type, got.origin, got.message, got.source) != before:
            res.witness("C14/pass-through/direct-call-returns-different-value", steps=steps, nc=before, got=repr(got)[:300])
        # None as input is reported as a NotCompleted naming the first step that received it
        res.evals += 1
        try:
            got = app(None)
        except Exception as e:  # noqa: BLE001
            res.witness(exc_mechanism("C14/call/none-input", e), steps=steps)
            continue
        if not isinstance(got, NotCompleted):
            res.witness("C14/call/none-input-not-reported", steps=steps, got=repr(got)[:200])


def case_fixed(res, case):
    """three inputs, the middle one's last step returns a value the writer cannot store"""
    keys = ["r00bcdg", "r01hkmp", "r02qvwz"]
    steps = ["alpha"] + (["seqs"] if case["store"] == "fasta" else [])
    W = {
        "n": 3, "steps": steps, "store": case["store"], "entry": "apply_to", "inputs": "str", "logger": False, "keys": keys,
        "payload": {k: "%08x" % (i * 2654435761 % 2**32) for i, k in enumerate(keys)},
        "plan": {keys[1]: {"at": len(steps), "mode": "wrong", "variant": case["variant"]}},
        "falsy": [],
    }  # fmt: skip
    world = World(W)
    try:
        res.count("histories:serial")
        obs = run_history(W, world, W["plan"])
        check_history(res, W, obs, W["plan"], "serial", replay=case)
    finally:
        world.close()


def case_fixed_dotted(res, case):
    """gene, gene.1, gene.2, other into the suffix-less store, in a given order: fresh run, resumed run, direct calls"""
    keys = list(case.get("keys") or ["gene", "gene.1", "gene.2", "other"])
    if case["order"] == "base-last":
        keys = keys[::-1]
    first = set(case.get("first") or ["gene", "other"])
    W = {
        "n": len(keys), "steps": ["alpha"], "store": case.get("store", "sql"), "entry": case["entry"], "inputs": case.get("inputs", "str"), "logger": False, "keys": keys,
        "payload": {k: "%08x" % (i * 2246822519 % 2**32) for i, k in enumerate(keys)},
        "plan": {keys[2]: {"at": 0, "mode": "empty", "variant": case.get("empty", "seqs")}, keys[-1]: {"at": 1, "mode": "exc", "variant": "KeyError"}},
        "falsy": [], "idfn": None, "layout": "flat", "keyscheme": "tricky" if case.get("keys") else "dotted", "gz": case.get("gz", []),
    }  # fmt: skip
    world = World(W)
    try:
        res.count("histories:serial")
        if not case.get("resumed"):
            obs = run_history(W, world, W["plan"])
            check_history(res, W, obs, W["plan"], "serial", replay=case)
        else:
            o1 = run_history(W, world, {}, subset=first)
            r1 = check_history(res, W, o1, {}, "serial", replay=case)
            if r1 is not None:
                o2 = run_history(W, world, W["plan"], store_path=o1["store_path"])
                check_history(res, W, o2, W["plan"], "serial-resumed", prior=r1["final"], replay=case)
    finally:
        world.close()


# --- the same with cogent3's own apps ---------------------------------------------------------------------------------


def case_real(res, case):
    """load_aligned + take_codon_positions(3) + min_length + write_db on fasta files named gene / gene.1 / gene.2 /
    other (+ random ones); some alignments have 2 columns (nothing is left: a falsy value that carries its source),
    some are too short, some pass. apply_to (fresh, resumed), and the composed app called on each input."""
    import pathlib

    from cogent3 import get_app, open_data_store

    rng = random.Random(case["seed"])
    base = tempfile.mkdtemp(prefix="c14-real-", dir=os.getcwd())
    try:
        ids = ["gene", "gene.1", "gene.2", "other"] + [t + sfx for t in make_ids(rng, 2) for sfx in ("", ".7")][: rng.randint(0, 4)]
        order = case["order"]
        if order == "base-last":
            ids = ids[::-1]
        elif order == "shuffled":
            rng.shuffle(ids)
        minlen = 4
        model = {}
        indir = os.path.join(base, "in")
        os.makedirs(indir)
        lengths = {i: rng.choice([2, 2, 9, 30, 30, 45]) for i in ids}
        lengths["gene"] = 30  # the plain name is stored, the dotted ones have to stay apart from it
        for i in ids:
            seqs = {nm: "".join(rng.choice("ACGT") for _ in range(lengths[i])) for nm in ("s1", "s2", "s3")}
            with open(os.path.join(indir, i + ".fasta"), "w") as f:
                for nm, sq in seqs.items():
                    f.write(f">{nm}\n{sq}\n")
            third = {nm: sq[2::3] for nm, sq in seqs.items()}
            n3 = len(third["s1"])
            model[i] = ("completed", canon(third)) if n3 >= minlen else ("nc", n3)
        kind_in = case["inputs"]

        def chain(out):
            return get_app("load_aligned", format="fasta", moltype="dna") + get_app("take_codon_positions", 3) + get_app("min_length", minlen) + get_app("write_db", out)

        def inputs(subset=None):
            if kind_in == "member":
                ds = open_data_store(indir, suffix="fasta")
                by = {str(m.unique_id)[: -len(".fasta")]: m for m in ds.completed}
                return [by[i] for i in ids if subset is None or i in subset]
            return [os.path.join(indir, i + ".fasta") for i in ids if subset is None or i in subset]

        def seqs_of(obj):
            """{name: sequence} out of a pickled alignment record, without cogent3"""
            out = {}
            for nm, d in obj["seqs"].items():
                sq = d["seq"] if isinstance(d, dict) else d
                while isinstance(sq, dict):
                    sq = sq["init_args"]["seq"] if "init_args" in sq else sq["seq"]
                out[nm] = str(sq)
            return out

        def audit(path, submitted, label, returned_store=None):
            recs = {}
            con = sqlite3.connect(f"file:{path}?mode=ro", uri=True)
            try:
                rows = list(con.execute("SELECT record_id, is_completed, data FROM results"))
            finally:
                con.close()
            det = {"ids_in_order": ids, "lengths": lengths, "scenario": label, "inputs": kind_in, "replay_case": case}
            for rid, is_c, data in rows:
                recs.setdefault(rid, []).append((is_c, pickle.loads(data)))
            ro = open_data_store(path, mode="r")
            reopened = {("completed", str(m.unique_id)) for m in ro.completed} | {("nc", str(m.unique_id)) for m in ro.not_completed}
            ro.close()
            disk = {("completed" if c else "nc", rid) for rid, v in recs.items() for c, _ in v}
            res.evals += 1
            if reopened != disk:
                res.witness("C14/store/reopened-listing-differs-from-disk", reopened=sorted(reopened), disk=sorted(disk), **det)
            if returned_store is not None:
                res.evals += 1
                if returned_store != disk:
                    res.witness("C14/store/listing-differs-from-disk", api=sorted(returned_store), disk=sorted(disk), **det)
            for i in submitted:
                res.evals += 1
                res.count("real:records-checked")
                got = recs.get(i, [])
                if not got:
                    res.witness("C14/conservation/input-without-record", key=i, expected=model[i], records=sorted(recs), **det)
                    continue
                if len(got) > 1:
                    res.witness("C14/conservation/duplicate-record", key=i, **det)
                    continue
                is_c, obj = got[0]
                kind = "completed" if is_c else "nc"
                if kind != model[i][0]:
                    res.witness(f"C14/association/{model[i][0]}-expected-{kind}-stored", key=i, expected=model[i], **det)
                    continue
                if is_c:
                    try:
                        content = canon(seqs_of(obj))
                    except Exception:  # noqa: BLE001
                        res.count("real:completed-content-not-parsed")
                        continue
                    if content != model[i][1]:
                        other = next((o for o in ids if o != i and model[o] == ("completed", content)), None)
                        cls = "record-holds-another-inputs-result" if other else "content-differs-from-model"
                        res.witness(f"C14/association/{cls}", key=i, got=content, expected=model[i][1], belongs_to=other, **det)
                else:
                    a = obj["not_completed_construction"]
                    typ, origin, message = a["args"]
                    source = a["kwargs"].get("source")
                    res.count("real:empty-alignment-failure" if model[i][1] == 0 else "real:short-alignment-failure")
                    if origin != "min_length":
                        res.witness("C14/failure-record/origin-is-not-the-failing-step", key=i, record=[typ, origin, message, source], **det)
                    if not message or str(model[i][1]) not in message:
                        res.witness("C14/failure-record/message-lost", key=i, record=[typ, origin, message, source], **det)
                    res.evals += 1
                    if source != i + ".fasta":
                        cls = "source-missing" if source is None else "source-wrong"
                        res.witness(f"C14/failure-record/{cls}", key=i, record=[typ, origin, message, source], expected_source=i + ".fasta", **det)
            res.evals += 1
            extra = sorted(set(recs) - set(ids))
            if extra:
                res.witness("C14/conservation/record-without-input", extra=extra, **det)

        def listing(out):
            return {("completed", str(m.unique_id)) for m in out.completed} | {("nc", str(m.unique_id)) for m in out.not_completed}

        def guarded(label, fn):
            try:
                return True, fn()
            except Exception as e:  # noqa: BLE001
                res.evals += 1
                res.witness(exc_mechanism(f"C14/real/{label}", e), error=repr(e)[:300], ids_in_order=ids, lengths=lengths, replay_case=case)
                return False, None

        # fresh run, mode w
        res.count("real:histories")
        path = os.path.join(base, "fresh.sqlitedb")
        out = open_data_store(path, mode="w")
        ok, _ = guarded("apply_to", lambda: chain(out).apply_to(inputs(), show_progress=False, logger=False))
        api = listing(out) if ok else None
        out.close()
        if ok:
            audit(path, ids, "fresh", api)
        # resumed run: the plain names first, then everything into the same store opened in append mode
        res.count("real:histories")
        path = os.path.join(base, "resumed.sqlitedb")
        first = {i for i in ids if "." not in i}
        out = open_data_store(path, mode="w")
        ok, _ = guarded("apply_to", lambda: chain(out).apply_to(inputs(first), show_progress=False, logger=False))
        out.close()
        if ok:
            audit(path, [i for i in ids if i in first], "resumed/phase-1")
            out = open_data_store(path, mode="a")
            ok, _ = guarded("apply_to-resumed", lambda: chain(out).apply_to(inputs(), show_progress=False, logger=False))
            api = listing(out) if ok else None
            out.close()
            if ok:
                audit(path, ids, "resumed/phase-2", api)
        # the composed app called on each input
        res.count("real:histories")
        path = os.path.join(base, "called.sqlitedb")
        out = open_data_store(path, mode="w")
        app = chain(out)
        ok, _ = guarded("call", lambda: [app(x) for x in inputs()])
        out.close()
        if ok:
            audit(path, ids, "called")
        res.sig("real", len(ids), order, kind_in, tuple(sorted({model[i][0] if model[i][0] == "completed" else f"nc{min(model[i][1], 1)}" for i in ids})))
    finally:
        shutil.rmtree(base, ignore_errors=True)


def case_par_direct(res, case):
    """cogent3.util.parallel on its own: every input is handed to f exactly once. as_completed: the multiset of results
    equals the multiset of f(inputs); imap / map: additionally in input order (documented)."""
    import operator
    from collections import Counter

    from cogent3.util import parallel as PAR

    w = case["workers"]
    sizes = [0, 1, 2, 4 * w, 4 * w + 1, 8 * w + 3, 60]
    for rep_ in range(case["reps"]):
        for n in sizes if rep_ == 0 else sizes[-3:]:
            items = list(range(1000 + rep_, 1000 + rep_ + n))
            want = [operator.neg(x) for x in items]
            for name in ("as_completed", "imap", "map") if rep_ == 0 and n in (0, 1, 4 * w + 1, 60) else ("as_completed",):
                res.evals += 1
                res.count(f"util.parallel:{name}")
                try:
                    got = list(getattr(PAR, name)(operator.neg, items, max_workers=w))
                except ValueError as e:
                    if n == 0 and name != "as_completed" and "chunksize" in str(e):
                        res.refused += 1  # imap/map decline an empty series (ValueError: chunksize must be >= 1)
                        continue
                    res.witness(exc_mechanism(f"C14/util.parallel/{name}", e), n=n, workers=w, error=repr(e)[:200], replay_case=case)
                    continue
                except Exception as e:  # noqa: BLE001
                    res.witness(exc_mechanism(f"C14/util.parallel/{name}", e), n=n, workers=w, error=repr(e)[:200], replay_case=case)
                    continue
                if n > 4 * w:
                    res.sig("util.parallel", name, w, "n>8w" if n > 8 * w else "n>4w")
                cg, cw = Counter(got), Counter(want)
                if cg != cw:
                    cls = "inputs-never-processed" if cw - cg and not cg - cw else "input-processed-more-than-once" if cg - cw and not cw - cg else "results-are-not-f-of-the-inputs"
                    res.witness(f"C14/util.parallel/{name}/{cls}", n=n, workers=w, missing=sorted((cw - cg).elements())[:10], extra=sorted((cg - cw).elements())[:10], n_results=len(got), replay_case=case)
                elif name != "as_completed" and got != want:
                    res.witness(f"C14/util.parallel/{name}/results-not-in-input-order", n=n, workers=w, got=got[:12], replay_case=case)
    # the same with tasks of mixed duration (a harness function: every 5th input sleeps), as_completed only
    if not case.get("mixed"):
        return
    n = 8 * w + 3
    items = list(range(n))
    res.evals += 1
    res.count("util.parallel:as_completed/mixed-durations")
    try:
        got = list(PAR.as_completed(A.par_task, items, max_workers=w))
    except Exception as e:  # noqa: BLE001
        res.witness(exc_mechanism("C14/util.parallel/as_completed", e), n=n, workers=w, error=repr(e)[:200], replay_case=case)
        return
    if Counter(got) != Counter(A.par_task(x, nap=False) for x in items):
        miss = sorted(set(items) - {g[0] for g in got})
        res.witness("C14/util.parallel/as_completed/inputs-never-processed" if miss else "C14/util.parallel/as_completed/results-are-not-f-of-the-inputs", n=n, workers=w, missing=miss[:10], n_results=len(got), replay_case=case)


def run_case(case):
    res = Result()
    kind = case["kind"]
    if kind == "parallel":
        case_parallel(res, case)
    elif kind == "parallel-batch":
        for sub in case["items"]:
            case_parallel(res, sub)
    elif kind == "serial":
        case_serial(res, case)
    elif kind == "direct":
        case_direct(res, case)
    elif kind == "fixed":
        case_fixed(res, case)
    elif kind == "fixed-dotted":
        case_fixed_dotted(res, case)
    elif kind == "real":
        case_real(res, case)
    elif kind == "par-direct":
        case_par_direct(res, case)
    return res


def required(counters, tier):
    # summaries of distinct realised orders (folded here because counters from the workers are summed by key)
    orders = [k for k in counters if k.startswith("order:")]
    pairs = [k for k in counters if k.startswith("pair:")]
    if orders:
        counters["distinct-realised-completion-orders"] = len(orders)
        counters["distinct-(workers,order-class)-pairs"] = len(pairs)
        for k in orders:
            del counters[k]
    miss = []
    if counters.get("parallel:non-identity", 0) < 1:
        miss.append("no parallel history realised a completion order different from the submission order")
    for m in MODES:
        if counters.get("outcome:" + m, 0) < 1:
            miss.append(f"outcome class '{m}' never decided")
    for k in ("histories:serial", "histories:parallel", "pass-through:observed", "direct:not-completed-through-chain", "resume:kept-completed", "writer-level:reached"):
        if counters.get(k, 0) < 1:
            miss.append(f"{k} never reached")
    for k in ("many-inputs:", "util.parallel:as_completed", "util.parallel:imap", "util.parallel:map"):
        if not any(x.startswith(k) for x in counters):
            miss.append(f"{k} never reached")
    for c in CHUNKSIZES:
        for r in range(c):
            if not any(k.startswith(f"chunksize:{c}/n-mod-c={r}") for k in counters):
                miss.append(f"no parallel history with chunksize={c} and n mod chunksize = {r}")
        if c > 1 and not any(k.startswith(f"chunksize:{c}/") and k.endswith("/single-input") for k in counters):
            miss.append(f"no single-input parallel history with chunksize={c}")
    if counters.get("falsy-input:dropped", 0) + counters.get("falsy-input:recorded", 0) < 1:
        miss.append("no falsy input was submitted")
    return miss
