"""C20 — tables follow the list-of-rows model and survive delimited round-trips.

Shape B (boundary recorder + executable model).  The model of a Table is a
header list plus a list of row tuples.  Two families of cases:

* ``chain``: a generated table is driven through a short history of relational
  operations (sorted, filtered, get_columns, with_new_column, appended, joined,
  cross join, transposed) and, after every step, header / shape / rows of the
  real table are compared with the model; read-only observations (count,
  count_unique, distinct_values, to_list(columns)) are interleaved.
* ``roundtrip``: a generated table (hostile strings, empty cells, missing
  values, numeric columns, zero rows) is written with ``Table.write`` in every
  delimited variant / JSON / pickle and read back with ``load_table``; the
  written delimited file is also parsed with Python's ``csv`` module so that a
  writer fault and a reader fault get different mechanisms.  ``to_csv`` /
  ``to_tsv`` strings are parsed with ``csv`` and compared with the formatted
  cell text.
"""

import collections
import csv
import gzip
import io
import os
import pathlib
import random
import shutil
import tempfile

import numpy

from vmon.core import Result, exc_mechanism

ID = "C20"
LEVEL = "exploration"
RULE = (
    "Seeded random tables: 1-5 columns of type int / float / str (small vocabulary with duplicates, prefix pairs, a few "
    "non-Latin-1 words) / bool / hostile str (delimiters, quotes, newlines, empty) / mixed (int, str, None), 0-8 rows "
    "(some up to 40), optional index_name / title. chain cases: a history of 1-4 operations drawn from sorted "
    "(multi-key, per-column reverse, reverse-only, all columns), filtered (callable / string expression, 1-2 clauses), "
    "get_columns, with_new_column (callable / expression), appended (siblings incl. zero-row, title column), joined "
    "(inner explicit keys incl. renamed keys and duplicate keys on both sides, natural, custom prefix; cross via "
    "joined and cross_join), transposed, with count / count_unique / distinct_values / to_list(columns) observed "
    "after steps; every step is compared with a list-of-row-tuples model (header, shape, rows; for sorted: key "
    "sequence + row multiset, tie order is not demanded). roundtrip cases: Table.write -> load_table for tsv, csv, "
    "sep ; | space, .gz, compress=True, json, json.gz, pickle, plus to_csv / to_tsv strings parsed with the csv "
    "module: header equal, cell text equal (None -> '' in delimited files, floats by repr), int/float columns numeric "
    "on reload (value and type of every numeric cell, nan-aware); float columns get nan / inf / -inf / 1e300 / "
    "-0.0 / denormals / integral floats in the FIRST data row as well as later rows; load_table is also run with "
    "static_column_types=True; natural joins share 2+ columns in a different order in the two tables (paired by "
    "name in the model); also .csv/.tsv(.gz) names with an explicit separator that is not the suffix default, given to "
    "write(sep=) and load_table(sep= / delimiter=). live cases: ONE table object is mutated between observations "
    "(index_name set to a later column / cleared after construction, title, legend, format_column, format, column "
    "added / deleted / replaced through table.columns) and after the construction and after every step every read "
    "path (header, shape, columns, columns.to_dict, array, columns.array, to_list, to_dict, row iteration, "
    "to_rich_dict, single cells, column slicing, to_csv, write + csv-module parse + load_table in a rotating format) "
    "is compared with a header-order + rows model; the first diverging path is the witness. Not generated: carriage returns (Python 3.12's csv.writer does not quote them with "
    "lineterminator='\\n'), non-ASCII text in files (the reader guesses the encoding), sorting of zero-row tables, "
    "column names that collide after prefixing. Non-trivial = >=2 rows and (duplicate key values or a hostile cell); "
    "distinct = (operation, variant, key-column types, has-duplicates, hostile classes / format)."
)
LEVEL_TEXT = (
    "Seeded random tables are driven through histories of the relational operations and every intermediate table is "
    "compared with a plain list-of-row-tuples model; every table is written in each delimited variant, JSON and "
    "pickle, reloaded, and compared cell by cell (the delimited file is also parsed independently with the csv "
    "module). Sampled, not exhaustive."
)
LEVEL_NOTE = (
    "held = held on the executions listed in the evidence; trusted: Python list/sorted/Counter semantics, the csv and "
    "gzip modules as the reference reader for delimited text"
)
TECHNIQUE = "runtime monitoring: boundary recorder + executable list-of-rows model; independent csv-module parse of written files"
ASSUMPTIONS = [
    "Python sorted()/list/collections.Counter are the reference semantics for the relational operations",
    "Python's csv module (excel dialect) is the reference parser for delimited text",
    "tie order among rows with equal sort keys is not demanded (Table.sorted does not document stability)",
    "a str cell whose text is a Python numeric literal may legitimately come back as a number from a delimited file",
    "an index_name column is always the first column (Columns.order) and is included by get_columns / to_list(columns)",
    "to_csv / to_tsv render floats with the table's `digits` decimals (formatted output); the rendering of None there is not judged",
    "column selection on a zero-row table returns a table without columns (Table.__getitem__ skips empty columns): recorded, not judged",
]
TIMEOUT = {"quick": 900, "thorough": 7200}

SORTABLE = ("int", "float", "str", "bool", "hstr")
PLAIN = ("int", "float", "str", "bool")
STR_VOCAB = ["a", "b", "ab", "abc", "c", "A", "B", "ba", "b c", "aa"]
WIDE_VOCAB = ["é", "日本", "zü"]  # beyond ASCII / beyond Latin-1
FLOATS = [0.5, 1.25, -3.75, 1e-05, 2.0, 100.125, 0.1, 1 / 3, 1e-20, 1e20, 123456.789, -0.25]
# floats whose text starts with a letter / has an exponent / a sign / looks like an int; nan and the infinities
# are kept as their repr in the JSON-able description (see decode_floats) because JSON has no literal for them
SPECIAL_FLOATS = ["nan", "inf", "-inf", 1e300, -1e300, -0.0, 5e-324, 1e-310, 2.0, -7.0, 1e16, 0.0]
HOSTILE_WORDS = ['"hi"', "'s'", "a,b", 'say "x"', 'x,"y"', "", "", "it's", " pad ", "tab\there", "new\nline", "a;b", "p|q", '"', "csv", "None", "x y"]
HOSTILE_ALPHA = ["a", "b", "X", "Y", " ", ",", "\t", ";", "|", '"', "'", "\n"]


# ---------------------------------------------------------------------------
# case generation


def gen_cases(rng, tier):
    cases = []
    nchain = 160 if tier == "quick" else 1600
    nrt = 96 if tier == "quick" else 960
    for _ in range(nchain):
        cases.append({"kind": "chain", "seed": rng.randrange(2**32), "n": 10 if tier == "quick" else 14, "tier": tier})
    for _ in range(nrt):
        cases.append({"kind": "roundtrip", "seed": rng.randrange(2**32), "n": 5 if tier == "quick" else 7, "tier": tier})
    nlive = 64 if tier == "quick" else 640
    for _ in range(nlive):
        cases.append({"kind": "live", "seed": rng.randrange(2**32), "n": 6 if tier == "quick" else 8, "tier": tier})
    return cases


def gen_cell(rng, typ, wide=False):
    if typ == "int":
        return rng.randint(-3, 4)
    if typ == "float":
        return rng.choice(FLOATS)
    if typ == "bool":
        return rng.random() < 0.5
    if typ == "str":
        if wide and rng.random() < 0.3:
            return rng.choice(WIDE_VOCAB)
        return rng.choice(STR_VOCAB)
    if typ == "hstr":
        if rng.random() < 0.5:
            return rng.choice(HOSTILE_WORDS)
        return "".join(rng.choice(HOSTILE_ALPHA) for _ in range(rng.randint(0, 6)))
    if typ == "mixed":
        x = rng.random()
        if x < 0.4:
            return rng.randint(-3, 4)
        if x < 0.7:
            return rng.choice(["a", "b", "ab", "x y"])
        return None
    raise ValueError(typ)


def gen_spec(rng, purpose, maxrows=8, prefix="c"):
    """a JSON-able table description"""
    ncol = rng.randint(1, 5)
    if purpose == "chain":
        pool = ["int", "int", "float", "str", "str", "bool", "hstr", "mixed"]
    else:
        pool = ["int", "float", "str", "bool", "hstr", "hstr", "mixed"]
    types = [rng.choice(pool) for _ in range(ncol)]
    r = rng.random()
    if r < 0.08:
        nrow = 0
    elif r < 0.16:
        nrow = 1
    elif r < 0.9:
        nrow = rng.randint(2, maxrows)
    else:
        nrow = rng.randint(17, 40)
    # non-ASCII words only for the in-memory operations: reading a file back guesses its encoding (chardet in
    # cogent3.util.io.open_), which is a property of the file layer, not of this one
    wide = purpose == "chain" and rng.random() < 0.12
    rows = [[gen_cell(rng, t, wide) for t in types] for _ in range(nrow)]
    header = [f"{prefix}{i}" for i in range(ncol)]
    if purpose == "roundtrip" and rng.random() < 0.15:
        # header names that need quoting themselves
        j = rng.randrange(ncol)
        header[j] = rng.choice(["a,b", 'q"x', "c d", "t\tu", "s;t"]) + str(j)
    spec = {"header": header, "types": types, "rows": rows, "title": "", "legend": "", "index": None, "digits": 4}
    if rng.random() < 0.3:
        spec["title"] = rng.choice(["T1", "my title", "tab A"])
    if purpose == "roundtrip" and rng.random() < 0.2:
        spec["legend"] = "a legend"
    if purpose == "roundtrip" and rng.random() < 0.2:
        spec["digits"] = rng.choice([2, 6])
    if nrow and rng.random() < 0.2 and types[0] in ("int", "str", "float"):
        col = [r_[0] for r_ in rows]
        if len(set(col)) == len(col):
            spec["index"] = header[0]
    if purpose == "roundtrip" and nrow:
        for j, t in enumerate(types):
            if t != "float" or spec["index"] == header[j] or rng.random() < 0.45:
                continue
            for i in range(nrow):
                if rng.random() < 0.35:
                    rows[i][j] = rng.choice(SPECIAL_FLOATS)
            if rng.random() < 0.7:
                # the first data row decides what a reader that looks at one row believes about the column
                rows[0][j] = rng.choice(SPECIAL_FLOATS[:3] if rng.random() < 0.6 else SPECIAL_FLOATS)
    return spec


def decode_floats(spec):
    """the description with 'nan' / 'inf' / '-inf' in float columns turned into floats"""
    fl = [j for j, t in enumerate(spec["types"]) if t == "float"]
    if not fl:
        return spec
    rows = []
    for r in spec["rows"]:
        r = list(r)
        for j in fl:
            if isinstance(r[j], str):
                r[j] = float(r[j])
        rows.append(r)
    return {**spec, "rows": rows}


# ---------------------------------------------------------------------------
# model helpers


def pyval(v):
    if isinstance(v, numpy.generic):
        v = v.item()
    return v


def norm(v):
    """type-class + value, so that True/1 and 'a'/numpy.str_('a') are told apart / identified correctly"""
    v = pyval(v)
    if isinstance(v, bool):
        return ("b", v)
    if isinstance(v, (int, float)):
        return ("n", v)
    if isinstance(v, str):
        return ("s", str(v))
    if v is None:
        return ("N",)
    if isinstance(v, (tuple, list)):
        return ("t",) + tuple(norm(x) for x in v)
    return ("?", repr(v)[:80])


def nrow(r):
    return tuple(norm(v) for v in r)


def nrows(rows):
    return [nrow(r) for r in rows]


class Model:
    def __init__(self, header, types, rows, index=None):
        self.header = list(header)
        self.types = list(types)
        self.rows = [tuple(r) for r in rows]
        self.index = index

    def col(self, name):
        return self.header.index(name)

    def spec(self):
        return {"header": self.header, "types": self.types, "rows": [list(r) for r in self.rows], "index": self.index}

    def has_dups(self, cols):
        idx = [self.col(c) for c in cols]
        keys = [tuple(norm(r[i]) for i in idx) for r in self.rows]
        return len(set(keys)) < len(keys)


def make_real(spec):
    from cogent3 import make_table

    kw = {}
    if spec.get("index"):
        kw["index_name"] = spec["index"]
    if spec.get("title"):
        kw["title"] = spec["title"]
    if spec.get("legend"):
        kw["legend"] = spec["legend"]
    if spec.get("digits", 4) != 4:
        kw["digits"] = spec["digits"]
    return make_table(header=list(spec["header"]), data=[list(r) for r in spec["rows"]], **kw)


def observe(t):
    """header, rows (tuples) and structural problems of a real table"""
    hdr = list(t.header)
    problems = []
    if not hdr:
        rows = []
    else:
        lst = t.to_list()
        if len(hdr) == 1:  # G: to_list of a one-column table is documented to be flat
            rows = [(v,) for v in lst]
        else:
            rows = [tuple(r) for r in lst]
    shape = tuple(t.shape)
    if shape != (len(rows), len(hdr)):
        problems.append(f"shape {shape} but {len(rows)} rows x {len(hdr)} header entries")
    for c in hdr:
        if len(t.columns[c]) != shape[0]:
            problems.append(f"column {c!r} has {len(t.columns[c])} values, shape says {shape[0]}")
    return hdr, rows, problems


def is_hostile(s):
    return isinstance(s, str) and (s == "" or s != s.strip() or any(ch in s for ch in ',\t;|"\'\n\r'))


def model_hostile(m):
    return any(is_hostile(v) for r in m.rows for v in r)


# predicate / expression families -------------------------------------------------


def clause_value(v, op, k):
    if op == ">":
        return v > k
    if op == "<=":
        return v <= k
    if op == "==":
        return v == k
    if op == "!=":
        return v != k
    if op == "startswith":
        return v.startswith(k)
    if op == "len>":
        return len(v) > k
    if op == "true":
        return bool(v)
    if op == "false":
        return not v
    raise ValueError(op)


def clause_text(name, op, k):
    if op in (">", "<=", "==", "!="):
        return f"({name} {op} {k!r})"
    if op == "startswith":
        return f"{name}.startswith({k!r})"
    if op == "len>":
        return f"(len({name}) > {k!r})"
    if op == "true":
        return f"bool({name})"
    if op == "false":
        return f"(not {name})"
    raise ValueError(op)


def gen_pred(rng, m, allow_expr=True):
    usable = [c for c, t in zip(m.header, m.types) if t != "mixed"]
    if not usable:
        return None
    ncl = 1 if len(usable) == 1 or rng.random() < 0.6 else 2
    cols = rng.sample(usable, ncl)
    clauses = []
    for c in cols:
        t = m.types[m.col(c)]
        vals = [r[m.col(c)] for r in m.rows]
        if t in ("int", "float"):
            op = rng.choice([">", "<=", "==", "!="])
            k = rng.choice(vals) if vals and rng.random() < 0.7 else gen_cell(rng, t)
        elif t in ("str", "hstr"):
            op = rng.choice(["==", "!=", "startswith", "len>"])
            if op == "len>":
                k = rng.randint(0, 2)
            elif op == "startswith":
                k = rng.choice(["a", "b", '"', ""])
            else:
                k = rng.choice(vals) if vals and rng.random() < 0.8 else gen_cell(rng, t)
        else:
            op = rng.choice(["true", "false"])
            k = None
        clauses.append([c, op, k])
    style = rng.choice(["callable", "expr"]) if allow_expr and all(c.isidentifier() for c in cols) else "callable"
    if style == "callable":
        if m.index in cols and cols[0] != m.index:
            # a callable receives the values in table order and an index column is always first (Columns.order)
            clauses.sort(key=lambda cl: cl[0] != m.index)
        colarg = rng.choice(["list", "str"]) if ncl == 1 else rng.choice(["list", "tuple"])
    else:
        colarg = rng.choice(["none", "list"])
    return {"clauses": clauses, "join": rng.choice(["and", "or"]), "style": style, "colarg": colarg}


def pred_model(pred):
    cl = pred["clauses"]
    join = pred["join"]

    def f(vals):
        outs = [clause_value(v, op, k) for v, (_, op, k) in zip(vals, cl)]
        return all(outs) if join == "and" else any(outs)

    return f


def pred_real(pred):
    """(callback, columns) for the real API"""
    cols = [c for c, _, _ in pred["clauses"]]
    f = pred_model(pred)
    if pred["style"] == "expr":
        text = f" {pred['join']} ".join(clause_text(c, op, k) for c, op, k in pred["clauses"])
        return text, (None if pred["colarg"] == "none" else list(cols))
    if len(cols) == 1:
        cb = lambda x: f([x])  # noqa: E731  (documented: a single value when one column)
    else:
        cb = lambda row: f(list(row))  # noqa: E731
    arg = {"list": list(cols), "tuple": tuple(cols), "str": cols[0]}[pred["colarg"]]
    return cb, arg


NEWCOL = {
    ("num",): ("{0} * 2 + 1", lambda v: v[0] * 2 + 1, "same"),
    ("str",): ("{0} + '_'", lambda v: v[0] + "_", "str"),
    ("str", "len"): ("len({0})", lambda v: len(v[0]), "int"),
    ("bool",): ("(not {0})", lambda v: not v[0], "bool"),
    ("num", "num"): ("{0} - {1}", lambda v: v[0] - v[1], "float"),
    ("num", "str"): ("{0} + len({1})", lambda v: v[0] + len(v[1]), "same"),
    ("str", "str"): ("{0} + {1}", lambda v: v[0] + v[1], "str"),
}


# structural classes recognised on the input (one mechanism per class, however the failure shows)
EXPR_INDEX = "expr-callback/index-column-not-first-in-columns"
JOIN_INDEX_KEY = "joined/inner/index-column-not-first-key"
JOIN_INDEX_DUP = "joined/inner/inherited-index-duplicated"
TRANSPOSE_INDEX = "transposed/indexed-table-select-non-index"
GETCOL_STR_INDEX = "get_columns/str-arg-with-index"
JOIN_NATURAL_ORDER = "joined/natural/shared-columns-in-different-order"


def tclass(t):
    return {"int": "num", "float": "num", "str": "str", "hstr": "str", "bool": "bool"}.get(t)


# ---------------------------------------------------------------------------
# the chain runner


class Chain:
    def __init__(self, res, spec, ops=None, rng=None, depth=0):
        self.res = res
        self.spec0 = spec
        self.replay_ops = ops
        self.rng = rng
        self.depth = depth
        self.done = []  # op descriptors executed so far
        self.m = Model(spec["header"], spec["types"], spec["rows"], spec.get("index"))
        self.t = None
        self.schema_changed = False

    # -- bookkeeping ---------------------------------------------------------
    def replay_case(self, op=None):
        ops = list(self.done) + ([op] if op is not None else [])
        return {"kind": "chain-one", "table": self.spec0, "ops": ops}

    def decide(self, op, mech, ok, sig=None, **detail):
        res = self.res
        res.evals += 1
        res.count("decided:" + op["op"])
        if sig is not None and len(self.m.rows) >= 2:
            res.sig(op["op"], *sig)
        if not ok:
            res.witness(f"C20/{mech}", table=self.m.spec(), op=op, replay_case=self.replay_case(op), **detail)
        return ok

    def raised(self, op, prefix, e, exact=False, **detail):
        """exact=True: `prefix` is a structural class the model recognised on the *input*; every way of failing
        in that class (wrong rows, wrong header, any exception) is reported under that one name"""
        self.res.evals += 1
        self.res.witness(
            f"C20/{prefix}" if exact else exc_mechanism(f"C20/{prefix}", e), table=self.m.spec(), op=op, error=repr(e)[:300], replay_case=self.replay_case(op), **detail
        )

    def compare_table(self, op, mech, t2, exp_header, exp_rows, sig=None, header_check=True, exact=False):
        """full comparison of a result table with the model's expectation; True if equal"""
        sfx = (lambda x: "") if exact else (lambda x: x)
        try:
            hdr, rows, problems = observe(t2)
        except Exception as e:  # noqa: BLE001
            self.raised(op, mech + sfx("/observe-result"), e, exact=exact)
            return False
        if problems:
            return self.decide(op, mech + sfx("/inconsistent-table"), False, problems=problems, got_header=hdr)
        same = nrows(rows) == nrows(exp_rows)
        if header_check and hdr != list(exp_header):
            # one witness per comparison: the header is named first, the rows ride along in the detail
            return self.decide(op, mech + sfx("/header"), False, got=hdr, expected=list(exp_header), rows_equal=same, got_rows=rows, expected_rows=[list(r) for r in exp_rows])
        return self.decide(op, mech + sfx("/rows"), same, sig, got=rows, expected=[list(r) for r in exp_rows])

    # -- driver --------------------------------------------------------------
    def run(self):
        res = self.res
        try:
            self.t = make_real(self.spec0)
        except Exception as e:  # noqa: BLE001
            res.evals += 1
            res.witness(exc_mechanism("C20/make_table", e), table=self.spec0, error=repr(e)[:300], replay_case=self.replay_case())
            return
        op0 = {"op": "make_table"}
        exp_header = self.m.header
        if not self.compare_table(op0, "make_table", self.t, exp_header, self.m.rows):
            return
        res.count("tables")
        if self.replay_ops is not None:
            for op in self.replay_ops:
                if not self.step(op):
                    break
            return
        for _ in range(self.depth):
            op = self.gen_op()
            if op is None:
                break
            if not self.step(op):
                break

    def gen_op(self):
        rng, m = self.rng, self.m
        choices = ["filtered", "count", "count_unique", "distinct_values", "get_columns", "to_list", "with_new_column", "appended", "joined", "joined", "cross", "transposed"]
        if m.rows:
            choices += ["sorted", "sorted", "sorted"]  # G: sorting requires >= 1 row
        for _ in range(6):
            name = rng.choice(choices)
            op = getattr(self, "gen_" + name)()
            if op is not None:
                return op
        return None

    def step(self, op):
        """execute one op on real + model; False stops the chain"""
        self.res.count("op:" + op["op"])
        cont = getattr(self, "do_" + op["op"])(op)
        self.done.append(op)
        return bool(cont)

    # -- sorted ----------------------------------------------------------------
    def gen_sorted(self):
        rng, m = self.rng, self.m
        sortable = [c for c, t in zip(m.header, m.types) if t in SORTABLE]
        if not sortable:
            return None
        variant = rng.choice(["cols", "cols", "cols", "rev-only", "all", "str-args"])
        if variant == "all":
            if len(sortable) != len(m.header):
                variant = "cols"
            else:
                return {"op": "sorted", "variant": "all", "columns": None, "reverse": None}
        if variant == "str-args":
            c = rng.choice(sortable)
            return {"op": "sorted", "variant": "str-args", "columns": c, "reverse": c if rng.random() < 0.5 else None}
        k = rng.randint(1, min(3, len(sortable)))
        cols = rng.sample(sortable, k)
        if variant == "rev-only":
            return {"op": "sorted", "variant": "rev-only", "columns": None, "reverse": cols}
        rev = [c for c in cols if rng.random() < 0.4]
        return {"op": "sorted", "variant": "cols", "columns": cols, "reverse": rev or None}

    def do_sorted(self, op):
        m = self.m
        cols, rev = op["columns"], op["reverse"]
        rev_l = [rev] if isinstance(rev, str) else list(rev or [])
        if cols is None:
            keys = rev_l if rev_l else list(m.header)  # documented: "If only reverse is provided, that order is used"
        else:
            keys = [cols] if isinstance(cols, str) else list(cols)
        idx = [m.col(c) for c in keys]
        exp = list(m.rows)
        for c in reversed(keys):
            i = m.col(c)
            exp = sorted(exp, key=lambda r, i=i: r[i], reverse=c in rev_l)
        ktypes = tuple(m.types[i] for i in idx)
        rev_types = tuple(sorted({m.types[m.col(c)] for c in rev_l}))
        multi = len(keys) > 1
        dup = m.has_dups(keys)
        if multi and rev_l:
            self.res.count("sorted:multi-key-reverse")
        if dup:
            self.res.count("sorted:duplicate-keys")
        sig = (op["variant"], ktypes, tuple(c in rev_l for c in keys), dup) if (dup or model_hostile(m)) else None
        kw = {}
        if cols is not None:
            kw["columns"] = cols
        if rev is not None:
            kw["reverse"] = rev
        try:
            t2 = self.t.sorted(**kw)
        except Exception as e:  # noqa: BLE001
            cls = "reverse-bool" if "bool" in rev_types else "call"
            self.raised(op, f"sorted/{cls}", e)
            return False
        try:
            hdr, rows, problems = observe(t2)
        except Exception as e:  # noqa: BLE001
            self.raised(op, "sorted/observe-result", e)
            return False
        if problems or hdr != m.header:
            self.decide(op, "sorted/header-or-shape", False, got_header=hdr, problems=problems)
            return False
        got_n, exp_n = nrows(rows), nrows(exp)
        if collections.Counter(got_n) != collections.Counter(exp_n):
            self.decide(op, "sorted/rows-changed", False, got=rows, expected=exp)
            return False
        gk = [tuple(r[i] for i in idx) for r in got_n]
        ek = [tuple(r[i] for i in idx) for r in exp_n]
        if gk != ek:
            # classify with a model of the one known way of getting this wrong: reversal by character translation
            mech = f"sorted/order-wrong/{'multi' if multi else 'single'}-key{'-reverse' if rev_l else ''}"
            str_rev = [c for c in rev_l if m.types[m.col(c)] in ("str", "hstr")]
            if str_rev:

                def tr(s):
                    return "".join(chr(255 - ord(ch)) if ord(ch) < 256 else ch for ch in s)

                alt = list(m.rows)
                for c in reversed(keys):
                    i = m.col(c)
                    if c in str_rev:
                        alt = sorted(alt, key=lambda r, i=i: tr(r[i]))
                    else:
                        alt = sorted(alt, key=lambda r, i=i: r[i], reverse=c in rev_l)
                ak = [tuple(nrow(r)[i] for i in idx) for r in alt]
                if ak == gk:
                    vals = {r[m.col(c)] for c in str_rev for r in m.rows}
                    wide = any(ord(ch) > 255 for v in vals for ch in v)
                    mech = "sorted/reverse-str/" + ("beyond-latin1" if wide else "prefix-strings")
            self.decide(op, mech, False, got=rows, expected=exp, keys=keys, reverse=rev_l)
            self.m = Model(m.header, m.types, exp, m.index)
            try:
                self.t = make_real({**self.m.spec(), "title": ""})
            except Exception:  # noqa: BLE001
                return False
            return True
        self.decide(op, "sorted", True, sig)
        if got_n != exp_n:
            self.res.count("sorted:tie-order-differs-from-stable(not demanded)")
        # tie order is not demanded: continue from the order the real table has
        self.m = Model(m.header, m.types, [tuple(pyval(v) for v in r) for r in rows], m.index)
        self.t = t2
        return True

    # -- filtered / count ------------------------------------------------------
    def gen_filtered(self):
        p = gen_pred(self.rng, self.m)
        return None if p is None else {"op": "filtered", "pred": p}

    def gen_count(self):
        p = gen_pred(self.rng, self.m)
        return None if p is None else {"op": "count", "pred": p}

    def _pred_rows(self, pred):
        m = self.m
        idx = [m.col(c) for c, _, _ in pred["clauses"]]
        f = pred_model(pred)
        return [r for r in m.rows if f([r[i] for i in idx])]

    def _pred_cls(self, pred):
        """expression callbacks look values up by name, so the order of `columns` must not matter; the one
        structural class where it is known to: an index column listed after another column"""
        cols = [c for c, _, _ in pred["clauses"]]
        if pred["style"] == "expr" and pred["colarg"] != "none" and self.m.index in cols and cols[0] != self.m.index:
            return None
        return pred["style"]

    def _pred_sig(self, pred):
        m = self.m
        cols = [c for c, _, _ in pred["clauses"]]
        dup = m.has_dups(cols)
        host = model_hostile(m)
        if not (dup or host):
            return None
        return (pred["style"], pred["colarg"], tuple(m.types[m.col(c)] for c in cols), tuple(op for _, op, _ in pred["clauses"]), dup, host)

    def do_filtered(self, op):
        m = self.m
        pred = op["pred"]
        exp = self._pred_rows(pred)
        cb, cols = pred_real(pred)
        self.res.count("filtered:" + pred["style"])
        cls = self._pred_cls(pred)
        try:
            t2 = self.t.filtered(cb, columns=cols)
        except Exception as e:  # noqa: BLE001
            self.raised(op, f"filtered/{cls}" if cls else EXPR_INDEX, e, exact=not cls)
            return False
        if not self.compare_table(op, f"filtered/{cls}" if cls else EXPR_INDEX, t2, m.header, exp, self._pred_sig(pred), exact=not cls):
            return False
        self.m = Model(m.header, m.types, exp, m.index)
        self.t = t2
        return True

    def do_count(self, op):
        pred = op["pred"]
        exp = len(self._pred_rows(pred))
        cb, cols = pred_real(pred)
        cls = self._pred_cls(pred)
        try:
            got = self.t.count(cb, columns=cols)
        except Exception as e:  # noqa: BLE001
            self.raised(op, f"count/{cls}" if cls else EXPR_INDEX, e, exact=not cls)
            return True
        self.decide(op, f"count/{cls}" if cls else EXPR_INDEX, int(got) == exp, self._pred_sig(pred), got=int(got), expected=exp)
        return True

    # -- count_unique / distinct_values / to_list ------------------------------
    def _gen_cols(self, allow_none=False, allow_str=True):
        rng, m = self.rng, self.m
        names = [c for c in m.header if c != m.index]  # index column: keep out of explicit selections (documented re-ordering)
        if not names:
            return None, None
        if allow_none and rng.random() < 0.2:
            return "none", list(m.header)
        k = rng.randint(1, min(3, len(names)))
        cols = rng.sample(names, k)
        if k == 1 and allow_str and rng.random() < 0.5:
            return "str", cols
        return "list", cols

    def gen_count_unique(self):
        how, cols = self._gen_cols(allow_none=True)
        return None if how is None else {"op": "count_unique", "how": how, "cols": cols}

    def gen_distinct_values(self):
        how, cols = self._gen_cols()
        return None if how is None else {"op": "distinct_values", "how": how, "cols": cols}

    def gen_to_list(self):
        how, cols = self._gen_cols()
        return None if how is None else {"op": "to_list", "how": how, "cols": cols}

    def _colarg(self, op):
        return None if op["how"] == "none" else (op["cols"][0] if op["how"] == "str" else list(op["cols"]))

    def _keysig(self, op):
        m = self.m
        dup = m.has_dups(op["cols"])
        host = model_hostile(m)
        return (op["how"], tuple(m.types[m.col(c)] for c in op["cols"]), dup, host) if (dup or host) else None

    def do_count_unique(self, op):
        m = self.m
        idx = [m.col(c) for c in op["cols"]]
        if len(idx) == 1:
            exp = collections.Counter(norm(r[idx[0]]) for r in m.rows)
        else:
            exp = collections.Counter(tuple(norm(r[i]) for i in idx) for r in m.rows)
        try:
            got = self.t.count_unique(self._colarg(op))
            gotd = {}
            for k, v in dict(got).items():
                nk = tuple(norm(x) for x in k) if (len(idx) > 1 and isinstance(k, tuple)) else norm(k)
                gotd[nk] = gotd.get(nk, 0) + int(v)
        except Exception as e:  # noqa: BLE001
            self.raised(op, "count_unique", e)
            return True
        self.decide(op, "count_unique", gotd == dict(exp), self._keysig(op), got=sorted(gotd.items(), key=repr), expected=sorted(exp.items(), key=repr))
        return True

    def do_distinct_values(self, op):
        m = self.m
        idx = [m.col(c) for c in op["cols"]]
        if len(idx) == 1:
            exp = {norm(r[idx[0]]) for r in m.rows}
        else:
            exp = {tuple(norm(r[i]) for i in idx) for r in m.rows}
        try:
            got = self.t.distinct_values(self._colarg(op))
            gots = {tuple(norm(x) for x in k) if (len(idx) > 1 and isinstance(k, tuple)) else norm(k) for k in got}
        except Exception as e:  # noqa: BLE001
            self.raised(op, "distinct_values", e)
            return True
        self.decide(op, "distinct_values", gots == exp, self._keysig(op), got=sorted(gots, key=repr), expected=sorted(exp, key=repr))
        return True

    def do_to_list(self, op):
        m = self.m
        cols = list(op["cols"])
        if len(cols) > 1 and m.index:
            cols = [m.index] + cols  # documented in get_columns: the index column is included
        idx = [m.col(c) for c in cols]
        if len(idx) == 1:
            exp = [norm(r[idx[0]]) for r in m.rows]  # G: flat list for one column
        else:
            exp = [tuple(norm(r[i]) for i in idx) for r in m.rows]
        try:
            got = self.t.to_list(self._colarg(op))
            gotn = [tuple(norm(x) for x in v) if (len(idx) > 1 and isinstance(v, (list, tuple))) else norm(v) for v in got]
        except Exception as e:  # noqa: BLE001
            self.raised(op, "to_list", e)
            return True
        self.decide(op, "to_list", gotn == exp, self._keysig(op), got=got, expected=exp)
        return True

    # -- get_columns -----------------------------------------------------------
    def gen_get_columns(self):
        rng, m = self.rng, self.m
        k = rng.randint(1, len(m.header))
        cols = rng.sample(m.header, k)
        how = "str" if k == 1 and rng.random() < 0.4 else "list"
        return {"op": "get_columns", "how": how, "cols": cols, "with_index": rng.random() < 0.8}

    def do_get_columns(self, op):
        m = self.m
        cols = list(op["cols"])
        if m.index and (op["with_index"] or m.index in cols):
            # documented: with_index includes the index column; Columns.order keeps an index column first
            cols = [m.index] + [c for c in cols if c != m.index]
        idx = [m.col(c) for c in cols]
        exp = [tuple(r[i] for i in idx) for r in m.rows]
        arg = op["cols"][0] if op["how"] == "str" else list(op["cols"])
        cls, exact = "get_columns/list-arg", False
        if op["how"] == "str":
            cls = "get_columns/str-arg"
            if m.index and op["with_index"]:
                cls, exact = GETCOL_STR_INDEX, True
        try:
            t2 = self.t.get_columns(arg, with_index=op["with_index"])
        except Exception as e:  # noqa: BLE001
            self.raised(op, cls, e, exact=exact)
            return False
        if not m.rows:
            # zero-row source: Table.__getitem__ deliberately skips empty columns, so the selection has no
            # columns at all. The property speaks about rows; recorded, not judged.
            try:
                hdr, rows, _ = observe(t2)
            except Exception as e:  # noqa: BLE001
                self.raised(op, f"{cls}/zero-rows", e)
                return False
            if hdr != cols:
                self.res.count("observed:zero-row-column-selection-drops-header(not demanded)")
            self.decide(op, f"{cls}/zero-rows", rows == [], None, got=rows)
            return False
        sig = (op["how"], len(cols), bool(m.index), model_hostile(m)) if (model_hostile(m) or m.has_dups(cols)) else None
        if not self.compare_table(op, cls, t2, cols, exp, sig, exact=exact):
            return False
        keep_index = m.index if (m.index in cols) else None
        self.m = Model(cols, [m.types[i] for i in idx], exp, keep_index)
        self.t = t2
        self.schema_changed = True
        return True

    # -- with_new_column ---------------------------------------------------------
    def gen_with_new_column(self):
        rng, m = self.rng, self.m
        cands = [(c, tclass(t)) for c, t in zip(m.header, m.types) if tclass(t)]
        if not cands:
            return None
        c0, k0 = rng.choice(cands)
        key, cols = (k0,), [c0]
        if k0 == "str" and rng.random() < 0.4:
            key = ("str", "len")
        elif rng.random() < 0.4:
            others = [(c, k) for c, k in cands if c != c0 and (k0, k) in NEWCOL]
            if others:
                c1, k1 = rng.choice(others)
                key, cols = (k0, k1), [c0, c1]
        ident = all(c.isidentifier() for c in cols)
        style = rng.choice(["callable", "expr"]) if ident else "callable"
        if style == "callable" and len(cols) == 2 and m.index == cols[1]:
            # a callable receives the values in table order and an index column is always first (Columns.order)
            if ident:
                style = "expr"
            else:
                key, cols = (k0,), [c0]
        colarg = rng.choice(["list", "str"] if len(cols) == 1 else ["list"]) if style == "callable" else rng.choice(["none", "list"])
        new = f"n{len(self.done)}"
        if new in m.header:
            return None
        return {"op": "with_new_column", "key": list(key), "cols": cols, "style": style, "colarg": colarg, "new": new}

    def do_with_new_column(self, op):
        m = self.m
        text, fn, rtype = NEWCOL[tuple(op["key"])]
        idx = [m.col(c) for c in op["cols"]]
        newvals = [fn([r[i] for i in idx]) for r in m.rows]
        exp = [r + (v,) for r, v in zip(m.rows, newvals)]
        if op["style"] == "expr":
            cb = text.format(*op["cols"])
            arg = None if op["colarg"] == "none" else list(op["cols"])
        else:
            if len(idx) == 1:
                cb = lambda x: fn([x])  # noqa: E731
            else:
                cb = lambda row: fn(list(row))  # noqa: E731
            arg = op["cols"][0] if op["colarg"] == "str" else list(op["cols"])
        cls = f"with_new_column/{op['style']}"
        exact = False
        if op["style"] == "expr" and arg is not None and m.index in op["cols"] and op["cols"][0] != m.index:
            cls, exact = EXPR_INDEX, True  # names are looked up by name: the order of `columns` must not matter
        try:
            t2 = self.t.with_new_column(op["new"], cb, columns=arg)
        except Exception as e:  # noqa: BLE001
            self.raised(op, cls, e, exact=exact)
            return False
        host = model_hostile(m)
        sig = (op["style"], op["colarg"], tuple(op["key"]), host) if (host or m.has_dups(op["cols"])) else None
        hdr = m.header + [op["new"]]
        if not self.compare_table(op, cls, t2, hdr, exp, sig, exact=exact):
            return False
        t0 = m.types[idx[0]]
        ntype = {"same": t0 if t0 in ("int", "float") else "int", "str": "str" if all(m.types[i] == "str" for i in idx) else "hstr"}.get(rtype, rtype)
        self.m = Model(hdr, m.types + [ntype], exp, m.index)
        self.t = t2
        self.schema_changed = True
        return True

    # -- appended ----------------------------------------------------------------
    def gen_appended(self):
        rng, m = self.rng, self.m
        if m.index:
            return None  # an appended index column is in general not unique; index tables are exercised elsewhere
        sibs = []
        for j in range(rng.randint(1, 3)):
            x = rng.random()
            if x < 0.25:
                sibs.append({"self": True})
            else:
                n = 0 if x < 0.4 else rng.randint(1, 4)
                rows = []
                for _ in range(n):
                    if m.rows and rng.random() < 0.4:
                        rows.append(list(rng.choice(m.rows)))
                    else:
                        rows.append([gen_cell(rng, t) if t in ("int", "float", "str", "bool", "hstr", "mixed") else None for t in m.types])
                sibs.append({"rows": rows, "title": f"S{j}"})
        new = rng.choice([None, f"src{len(self.done)}", f"src{len(self.done)}"])
        if new in m.header:
            return None
        return {"op": "appended", "new": new, "sibs": sibs, "as_list": rng.random() < 0.3}

    def do_appended(self, op):
        m = self.m
        tabs, mods = [], []
        try:
            for s in op["sibs"]:
                if s.get("self"):
                    tabs.append(self.t)
                    mods.append((self.t.title, m.rows))
                else:
                    spec = {"header": m.header, "types": m.types, "rows": s["rows"], "title": s["title"]}
                    tabs.append(make_real(spec))
                    mods.append((s["title"], [tuple(r) for r in s["rows"]]))
            title0 = self.t.title
        except Exception as e:  # noqa: BLE001
            self.raised(op, "appended/make-sibling", e)
            return False
        series = [(title0, m.rows)] + mods
        new = op["new"]
        if new is None:
            exp = [r for _, rows in series for r in rows]
            hdr, types = m.header, m.types
        else:
            exp = [(ti,) + tuple(r) for ti, rows in series for r in rows]
            hdr, types = [new] + m.header, ["str"] + m.types
        any_empty = any(len(rows) == 0 for _, rows in series)
        if any_empty:
            self.res.count("appended:with-zero-row-table")
        try:
            t2 = self.t.appended(new, tabs) if op["as_list"] else self.t.appended(new, *tabs)
        except Exception as e:  # noqa: BLE001
            self.raised(op, "appended/" + ("with-zero-row-table" if any_empty else "call"), e)
            return False
        host = model_hostile(m)
        dup = len(set(nrows(exp))) < len(exp)
        sig = (new is not None, len(tabs), any_empty, tuple(sorted(set(m.types))), host) if (host or dup) else None
        if not self.compare_table(op, "appended", t2, hdr, exp, sig):
            return False
        self.m = Model(hdr, types, exp, None)
        self.t = t2
        self.schema_changed = self.schema_changed or new is not None
        return True

    # -- joins -----------------------------------------------------------------
    def _gen_other(self, key_cols, same_names, collide):
        """a second table whose key columns draw from this table's key values (so duplicates and misses both occur)"""
        rng, m = self.rng, self.m
        kidx = [m.col(c) for c in key_cols]
        step = len(self.done)
        knames = list(key_cols) if same_names else [f"k{step}_{j}" for j in range(len(key_cols))]
        nextra = rng.randint(0, 2)
        etypes = [rng.choice(["int", "str", "float", "bool", "hstr"]) for _ in range(nextra)]
        enames = []
        for j in range(nextra):
            free = [c for c in m.header if c not in key_cols and c not in enames]
            if collide and free and rng.random() < 0.6:
                enames.append(rng.choice(free))  # same name as a column of self: must come out prefixed
            else:
                enames.append(f"x{step}_{j}")
        x = rng.random()
        n = 0 if x < 0.08 else rng.randint(1, 6)
        rows = []
        for _ in range(n):
            if m.rows and rng.random() < 0.75:
                src = rng.choice(m.rows)
                key = [src[i] for i in kidx]
                if len(key) > 1 and rng.random() < 0.2:
                    key[-1] = gen_cell(rng, m.types[kidx[-1]])
            else:
                key = [gen_cell(rng, m.types[i]) for i in kidx]
            rows.append(key + [gen_cell(rng, t) for t in etypes])
        order = list(range(len(knames) + nextra))
        if rng.random() < 0.3:
            rng.shuffle(order)
        hdr = knames + enames
        types = [m.types[i] for i in kidx] + etypes
        return {
            "header": [hdr[i] for i in order],
            "types": [types[i] for i in order],
            "rows": [[r[i] for i in order] for r in rows],
            "title": "other",
        }, knames

    def gen_joined(self):
        rng, m = self.rng, self.m
        cands = [c for c, t in zip(m.header, m.types) if t != "mixed"]
        if not cands:
            return None
        k = 1 if len(cands) == 1 or rng.random() < 0.6 else 2
        how = rng.choice(["explicit", "explicit", "natural"])
        if how == "natural" and len(cands) > 1 and rng.random() < 0.5:
            k = 2  # two or more shared columns, often in a different order in the other table
        keys = rng.sample(cands, k)
        if how == "natural":
            other, knames = self._gen_other(keys, same_names=True, collide=False)
            prefix = rng.choice([None, "R_"])
            if self._collides(other["header"], knames, prefix):
                return None
            # the natural key is every shared name, in self's column order
            return {"op": "joined", "how": "natural", "other": other, "prefix": prefix}
        same = rng.random() < 0.5
        other, knames = self._gen_other(keys, same_names=same, collide=True)
        single_as_str = k == 1 and rng.random() < 0.5
        prefix = rng.choice([None, None, "R_", "o."])
        if self._collides(other["header"], knames, prefix):
            return None
        return {
            "op": "joined",
            "how": "explicit",
            "other": other,
            "cs": keys[0] if single_as_str else keys,
            "co": knames[0] if single_as_str else knames,
            "prefix": prefix,
        }

    def _collides(self, other_header, drop, prefix):
        """would the documented result header contain a name twice (the caller's choice of prefix; not a case to judge)"""
        prefix = "right_" if prefix is None else prefix
        hdr = self.m.header + [prefix + c for c in other_header if c not in drop]
        return len(set(hdr)) < len(hdr)

    def do_joined(self, op):
        m = self.m
        o = op["other"]
        om = Model(o["header"], o["types"], o["rows"])
        prefix = op["prefix"] if op["prefix"] is not None else "right_"
        natural_reordered = False
        if op["how"] == "natural":
            # a natural join pairs the shared columns by NAME, wherever they sit in either table
            shared = set(m.header) & set(om.header)
            cs = [c for c in m.header if c in shared]
            co = list(cs)
            natural_reordered = [c for c in om.header if c in shared] != cs
            if natural_reordered:
                self.res.count("join:natural-shared-columns-in-different-order")
        else:
            cs = [op["cs"]] if isinstance(op["cs"], str) else list(op["cs"])
            co = [op["co"]] if isinstance(op["co"], str) else list(op["co"])
        si = [m.col(c) for c in cs]
        oi = [om.col(c) for c in co]
        keep = [j for j, c in enumerate(om.header) if c not in co]
        exp = []
        for r in m.rows:
            kr = tuple(r[i] for i in si)
            for s in om.rows:
                if kr == tuple(s[j] for j in oi):
                    exp.append(r + tuple(s[j] for j in keep))
        hdr = m.header + [prefix + om.header[j] for j in keep]
        types = m.types + [om.types[j] for j in keep]
        dup_self = m.has_dups(cs)
        dup_other = om.has_dups(co)
        if dup_self and dup_other and exp:
            self.res.count("join:duplicate-keys-both-sides")
        if any(om.header[j] in m.header for j in keep):
            self.res.count("join:colliding-column-name-prefixed")
        if not exp:
            self.res.count("join:no-match")
        kw = {}
        if op["how"] == "explicit":
            kw["columns_self"] = op["cs"]
            kw["columns_other"] = op["co"]
        if op["prefix"] is not None:
            kw["col_prefix"] = op["prefix"]
        try:
            other_t = make_real(o)
        except Exception as e:  # noqa: BLE001
            self.raised(op, "joined/make-other", e)
            return False
        index_dup = bool(m.index) and len({norm(r[m.col(m.index)]) for r in exp}) < len(exp)
        cls, exact = f"joined/{op['how']}", False
        if natural_reordered:
            cls, exact = JOIN_NATURAL_ORDER, True
        elif m.index in cs and cs[0] != m.index:
            cls, exact = JOIN_INDEX_KEY, True
        elif index_dup:
            cls, exact = JOIN_INDEX_DUP, True
        try:
            t2 = self.t.joined(other_t, **kw)
        except Exception as e:  # noqa: BLE001
            self.raised(op, cls, e, exact=exact)
            return False
        host = model_hostile(m) or model_hostile(om)
        sig = (op["how"], tuple(m.types[i] for i in si), isinstance(op.get("cs"), str), op["prefix"], dup_self, dup_other, host) if (dup_self or dup_other or host) else None
        if not self.compare_table(op, cls, t2, hdr, exp, sig, exact=exact):
            return False
        if index_dup:
            return False  # the result carries an index_name whose values are no longer unique: not a table to go on with
        self.m = Model(hdr, types, exp, m.index)
        self.t = t2
        self.schema_changed = True
        return True

    def gen_cross(self):
        rng, m = self.rng, self.m
        n = 0 if rng.random() < 0.1 else rng.randint(1, 4)
        ncol = rng.randint(1, 2)
        types = [rng.choice(["int", "str", "bool", "hstr", "float"]) for _ in range(ncol)]
        names = []
        for j in range(ncol):
            names.append(rng.choice(m.header) if rng.random() < 0.4 else f"y{len(self.done)}_{j}")
        if len(set(names)) < len(names):
            names = [f"y{len(self.done)}_{j}" for j in range(ncol)]
        other = {"header": names, "types": types, "rows": [[gen_cell(rng, t) for t in types] for _ in range(n)], "title": "other"}
        prefix = rng.choice([None, None, "X_"])
        if self._collides(names, [], prefix) or self._collides(names, [], None):
            return None
        return {"op": "cross", "via": rng.choice(["joined", "cross_join"]), "other": other, "prefix": prefix}

    def do_cross(self, op):
        m = self.m
        o = op["other"]
        om = Model(o["header"], o["types"], o["rows"])
        prefix = op["prefix"] if op["prefix"] is not None else "right_"
        exp = [r + s for r in m.rows for s in om.rows]
        hdr = m.header + [prefix + c for c in om.header]
        zero = not m.rows or not om.rows
        if zero:
            self.res.count("cross:zero-row-operand")
        kw = {}
        if op["prefix"] is not None:
            kw["col_prefix"] = op["prefix"]
        try:
            other_t = make_real(o)
        except Exception as e:  # noqa: BLE001
            self.raised(op, "cross/make-other", e)
            return False
        try:
            if op["via"] == "joined":
                t2 = self.t.joined(other_t, inner_join=False, **kw)
            else:
                t2 = self.t.cross_join(other_t, **kw)
        except Exception as e:  # noqa: BLE001
            self.raised(op, "cross_join/" + ("zero-row-operand" if zero else "call"), e)
            return False
        host = model_hostile(m) or model_hostile(om)
        dup = len(set(nrows(exp))) < len(exp)
        sig = (op["via"], op["prefix"], tuple(sorted(set(m.types))), dup, host) if (dup or host) else None
        try:
            got_hdr = list(t2.header)
        except Exception as e:  # noqa: BLE001
            self.raised(op, "cross_join/header", e)
            return False
        header_check = True
        if got_hdr != hdr and op["via"] == "joined" and op["prefix"] is not None and got_hdr == m.header + ["right_" + c for c in om.header]:
            self.decide(op, "joined/cross/col_prefix-ignored", False, got=got_hdr, expected=hdr)
            hdr = got_hdr
            header_check = False
        if not self.compare_table(op, "cross_join", t2, hdr, exp, sig, header_check=header_check):
            return False
        self.m = Model(hdr, m.types + om.types, exp, None)
        self.t = t2
        self.schema_changed = True
        return True

    # -- transposed ----------------------------------------------------------------
    def gen_transposed(self):
        rng, m = self.rng, self.m
        ok = [c for c, t in zip(m.header, m.types) if t in PLAIN]
        if m.types[0] in PLAIN and rng.random() < 0.4:
            return {"op": "transposed", "new": "T_", "select": None}
        if not ok:
            return None
        return {"op": "transposed", "new": "T_", "select": rng.choice(ok)}

    def do_transposed(self, op):
        m = self.m
        sel = op["select"] or m.header[0]
        si = m.col(sel)
        vals = [r[si] for r in m.rows]
        others = [c for c in m.header if c != sel]
        unique = len({norm(v) for v in vals}) == len(vals) and len({str(v) for v in vals}) == len(vals)
        kw = {} if op["select"] is None else {"select_as_header": op["select"]}
        mech, exact = "transposed", False
        if m.index and sel != m.index:
            mech, exact = TRANSPOSE_INDEX, True
        try:
            t2 = self.t.transposed(op["new"], **kw)
        except ValueError as e:
            if not unique and "unique" in str(e):
                self.res.refused += 1  # raises ValueError("not all ... values unique") by design
                self.res.count("transposed:refused-duplicate-header-values")
                return False
            self.raised(op, mech, e, exact=exact)
            return False
        except Exception as e:  # noqa: BLE001
            self.raised(op, mech, e, exact=exact)
            return False
        if not unique:
            self.decide(op, "transposed/duplicate-header-values-accepted", False, values=vals)
            return False
        hdr = [op["new"]] + [str(v) for v in vals]
        exp = [(c,) + tuple(r[m.col(c)] for r in m.rows) for c in others]
        host = model_hostile(m)
        sig = (m.types[si], op["select"] is None, tuple(sorted(set(m.types))), host) if (host or len(m.rows) >= 2) else None
        self.compare_table(op, mech, t2, hdr, exp, sig, exact=exact)
        return False  # terminal: the column types of the result are row-wise mixtures


def run_chain_batch(res, case):
    rng = random.Random(case["seed"])
    thorough = case.get("tier") == "thorough"
    for _ in range(case["n"]):
        spec = gen_spec(rng, "chain", maxrows=8 if not thorough else 12)
        ch = Chain(res, spec, rng=rng, depth=rng.randint(1, 4 if not thorough else 6))
        ch.run()
        if ch.done:
            res.sample({"table": spec, "ops": ch.done[:3]})


# ---------------------------------------------------------------------------
# round trips


def cell_class(s, sep):
    if not isinstance(s, str):
        return "non-str"
    if "\n" in s:
        return "newline"
    if "\r" in s:
        return "carriage-return"
    if '"' in s or "'" in s:
        return "quote"
    if sep is not None and sep in s:
        return "delimiter"
    if s == "":
        return "empty"
    if s != s.strip():
        return "whitespace-edge"
    return "plain"


def table_classes(spec, sep):
    out = set()
    for r in spec["rows"]:
        for v in r:
            if v is None:
                out.add("missing")
            elif isinstance(v, str):
                out.add(cell_class(v, sep))
    for h in spec["header"]:
        c = cell_class(h, sep)
        if c != "plain":
            out.add("header-" + c)
    return out


def is_python_expr(s):
    try:
        compile(s.lstrip(" \t"), "<cell>", "eval")  # eval() ignores leading blanks
        return True
    except Exception:  # noqa: BLE001
        return False


def is_numeric_literal(s):
    for f in (int, float, complex):
        try:
            f(s)
            return True
        except (ValueError, TypeError):
            pass
    try:
        import ast

        return isinstance(ast.literal_eval(s), (int, float, complex)) and not isinstance(ast.literal_eval(s), bool)
    except Exception:  # noqa: BLE001
        return False


def file_text(v):
    """canonical text of a cell in a delimited file written from unformatted values (csv module rules)"""
    v = pyval(v)
    if v is None:
        return ""
    if isinstance(v, float):
        return repr(v)
    return str(v)


def obj_text(v):
    v = pyval(v)
    if isinstance(v, float):
        return repr(v)
    return str(v)


def formatted_text(v, typ, digits):
    """documented rendering of to_csv / to_tsv: ints as d, floats with `digits` decimals, rest str"""
    if typ == "float":
        return f"{v:.{digits}f}"
    return str(v)


VARIANTS_QUICK = [
    ("tsv", "x.tsv", {}, {}),
    ("csv", "x.csv", {}, {}),
    ("tsv.gz", "x.tsv.gz", {}, {}),
    ("csv.gz", "x.csv.gz", {}, {}),
    ("compress=True", "y.tsv", {"compress": True}, {}),
    ("sep=;", "x.txt", {"sep": ";"}, {"sep": ";"}),
    ("sep=|", "z.txt", {"sep": "|"}, {"sep": "|"}),
    ("sep=space", "w.txt", {"sep": " "}, {"sep": " "}),
    ("json", "x.json", {}, {}),
    ("json.gz", "x.json.gz", {}, {}),
    ("pickle", "x.pickle", {}, {}),
    # an explicit separator that is not the default of the file suffix: write(sep=) and load_table(sep= / delimiter=)
    ("csv+sep=tab", "m.csv", {"sep": "\t"}, {"sep": "\t"}),
    ("tsv+delimiter=;", "m.tsv", {"sep": ";"}, {"delimiter": ";"}),
    ("tsv+sep=,", "n.tsv", {"sep": ","}, {"sep": ","}),
    ("csv.gz+delimiter=|", "m.csv.gz", {"sep": "|"}, {"delimiter": "|"}),
    ("tsv.gz+sep=;", "m.tsv.gz", {"sep": ";"}, {"sep": ";"}),
    # column types decided from the first data row only (documented option of load_table)
    ("static:tsv", "s.tsv", {}, {"static_column_types": True}),
    ("static:csv.gz", "s.csv.gz", {}, {"static_column_types": True}),
]
SEP_OF = {
    "tsv": "\t", "csv": ",", "tsv.gz": "\t", "csv.gz": ",", "compress=True": "\t", "sep=;": ";", "sep=|": "|", "sep=space": " ",
    "static:tsv": "\t", "static:csv.gz": ",",
    "csv+sep=tab": "\t", "tsv+delimiter=;": ";", "tsv+sep=,": ",", "csv.gz+delimiter=|": "|", "tsv.gz+sep=;": ";",
}


def family(variant):
    if variant.startswith("json"):
        return "json"
    if variant == "pickle":
        return "pickle"
    return "delimited"


def run_roundtrip(res, spec, only=None, workdir=None):
    from cogent3 import load_table

    spec = decode_floats(spec)  # (witness details turn nan / inf back into their repr)
    replay = {"kind": "roundtrip-one", "table": spec}
    try:
        t = make_real(spec)
    except Exception as e:  # noqa: BLE001
        res.evals += 1
        res.witness(exc_mechanism("C20/make_table", e), table=spec, error=repr(e)[:300], replay_case=replay)
        return
    res.count("rt-tables")
    header = list(spec["header"])
    if spec.get("index"):
        header = [spec["index"]] + [c for c in header if c != spec["index"]]
    order = [spec["header"].index(c) for c in header]
    rows = [[r[i] for i in order] for r in spec["rows"]]
    types = [spec["types"][i] for i in order]
    n = len(rows)
    dup = len(set(nrows(rows))) < n
    for j, ty in enumerate(types):
        if ty == "float" and n:
            v = rows[0][j]
            if v != v or v in (float("inf"), float("-inf")):
                res.count("rt:float-column-nan-or-inf-in-first-row")
            if any(r[j] != r[j] or r[j] in (float("inf"), float("-inf")) for r in rows[1:]):
                res.count("rt:float-column-nan-or-inf-in-later-row")
            if any(r[j] in (1e300, -1e300, 5e-324, 1e-310, 1e16) or (r[j] == 0 and str(r[j]) == "-0.0") for r in rows):
                res.count("rt:float-column-extreme-or-negative-zero")
    own = workdir is None
    if own:
        workdir = pathlib.Path(tempfile.mkdtemp(prefix="c20-", dir=os.getcwd()))
    try:
        for variant, fname, wkw, lkw in VARIANTS_QUICK:
            if only and variant != only:
                continue
            _one_variant(res, spec, t, variant, workdir / fname, wkw, lkw, header, rows, types, dup, load_table)
        for name, sep in (("to_csv", ","), ("to_tsv", "\t")):
            if only and name != only:
                continue
            _to_string(res, spec, t, name, sep, header, rows, types, dup)
    finally:
        if own:
            shutil.rmtree(workdir, ignore_errors=True)


def _one_variant(res, spec, t, variant, path, wkw, lkw, header, rows, types, dup, load_table):
    fam = family(variant)
    # the class named in a mechanism: a separator given explicitly against the suffix default is its own class
    label = "delimited-explicit-sep-vs-suffix" if "+" in variant else fam
    sep = SEP_OF.get(variant)
    n = len(rows)
    classes = table_classes(spec, sep)
    hostile = sorted(c for c in classes if c not in ("plain",))
    replay = {"kind": "roundtrip-one", "table": spec, "only": variant}
    res.count("rt:" + variant)
    for c in classes:
        res.count(f"rt-class:{fam}:{c}")
    if n == 0:
        res.count(f"rt:{fam}:zero-rows")
    tclass_ = "zero-rows" if n == 0 else (hostile[0] if hostile else "plain")

    def witness(mech, **detail):
        res.witness(f"C20/roundtrip/{label}/{mech}", variant=variant, table=spec, replay_case=replay, **detail)

    # ---- write
    if path.exists():
        path.unlink()
    try:
        t.write(path, **wkw)
    except Exception as e:  # noqa: BLE001
        res.evals += 1
        res.witness(exc_mechanism(f"C20/roundtrip/{label}/write/{tclass_}", e), variant=variant, table=spec, error=repr(e)[:300], replay_case=replay)
        return
    real_path = path
    if wkw.get("compress"):
        real_path = pathlib.Path(str(path) + ".gz")  # documented: appends .gz
    if not real_path.exists():
        res.evals += 1
        witness("write/file-not-at-documented-path", listing=sorted(os.listdir(path.parent)))
        return
    with_title = bool(spec.get("title"))
    with_legend = bool(spec.get("legend"))
    # ---- the written delimited file, parsed by the csv module
    if fam == "delimited":
        try:
            opener = gzip.open if str(real_path).endswith(".gz") else open
            with opener(real_path, "rt", newline="") as f:
                parsed = list(csv.reader(f, delimiter=sep))
        except Exception as e:  # noqa: BLE001
            parsed = None
            res.evals += 1
            witness("writer/unparsable-file", error=repr(e)[:200])
        if parsed is not None:
            exp_file = ([[spec["title"]]] if with_title else []) + [header] + [[file_text(v) for v in r] for r in rows]
            if with_legend:
                exp_file.append([spec["legend"]])
            res.evals += 1
            res.count("decided:rt-writer")
            if parsed != exp_file:
                witness(f"writer/{tclass_}", got=parsed, expected=exp_file)
            elif n >= 2 and (hostile or dup):
                res.sig("rt-writer", variant, tuple(sorted(set(types))), dup, tuple(hostile))
    # ---- load
    kw = dict(lkw)
    if fam == "delimited":
        if with_title:
            kw["with_title"] = True
        if with_legend:
            kw["with_legend"] = True
    try:
        g = load_table(real_path, **kw)
        ghdr, grows, problems = observe(g)
    except Exception as e:  # noqa: BLE001
        res.evals += 1
        res.witness(exc_mechanism(f"C20/roundtrip/{label}/load/{tclass_}", e), variant=variant, table=spec, error=repr(e)[:300], replay_case=replay)
        return
    res.evals += 1
    res.count("decided:rt-header")
    if ghdr != header:
        witness("header", got=ghdr, expected=header)
        return
    res.evals += 1
    if len(grows) != n or problems:
        witness(f"row-count/{tclass_}", got=len(grows), expected=n, problems=problems)
        return
    # ---- cells
    bad = None
    evaluated = None
    cr = None
    inferred = 0
    for ri, (gr, er) in enumerate(zip(grows, rows)):
        for ci, (gv, ev) in enumerate(zip(gr, er)):
            res.evals += 1
            if fam == "delimited":
                et, gt = file_text(ev), obj_text(gv)  # a missing value is written as '' (csv module rule)
            else:
                et, gt = obj_text(ev), obj_text(gv)
            if et == gt:
                continue
            if fam == "delimited" and isinstance(ev, str):
                if is_numeric_literal(ev) and not isinstance(pyval(gv), str):
                    inferred += 1  # G: legitimate type inference of the delimited reader
                    continue
                if "\r" in ev and gt == et.replace("\r\n", "\n").replace("\r", "\n"):
                    cr = cr or (ri, ci, ev, gt)
                    continue
                if is_python_expr(ev) and (not isinstance(pyval(gv), str) or '"' in ev or "'" in ev):
                    evaluated = evaluated or (ri, ci, ev, repr(pyval(gv))[:120])
                    continue
            bad = bad or (ri, ci, ev, repr(pyval(gv))[:120], cell_class(ev, sep), types[ci])
    res.count("decided:rt-cells")
    if inferred:
        res.count("rt:numeric-looking-str-cell-inferred(not demanded)", inferred)
    if evaluated:
        witness("str-cell-evaluated-as-python", row=evaluated[0], col=evaluated[1], cell=evaluated[2], got=evaluated[3])
    if cr:
        witness("carriage-return-translated", row=cr[0], col=cr[1], cell=cr[2], got=cr[3])
    if bad:
        witness(f"cell-text/{bad[5]}-column/{bad[4]}", row=bad[0], col=bad[1], cell=bad[2], got=bad[3])
    # ---- numeric columns numeric
    if n:
        for ci, (c, ty) in enumerate(zip(header, types)):
            if ty in ("int", "float"):
                res.evals += 1
                res.count("rt:numeric-column-checked")
                kind = g.columns[c].dtype.kind
                got_col = [pyval(r[ci]) for r in grows]
                exp_col = [r[ci] for r in rows]
                first = exp_col[0]
                cls = ty + ("/first-cell-nan-or-inf" if ty == "float" and (first != first or first in (float("inf"), float("-inf"))) else "")
                if kind not in "iuf" or any(isinstance(v, (str, bool)) or not isinstance(v, (int, float)) for v in got_col):
                    witness(f"numeric-not-restored/{cls}", column=c, dtype=str(g.columns[c].dtype), got=got_col[:6])
                elif any(not ((a != a and b != b) or (a == b and repr(float(a)) == repr(float(b)))) for a, b in zip(got_col, exp_col)):
                    witness(f"numeric-value-changed/{cls}", column=c, got=got_col[:6], expected=exp_col[:6])
    if not (bad or evaluated or cr) and n >= 2 and (hostile or dup):
        res.sig("rt", variant, tuple(sorted(set(types))), dup, tuple(hostile))


def _to_string(res, spec, t, name, sep, header, rows, types, dup):
    n = len(rows)
    classes = table_classes(spec, sep)
    hostile = sorted(c for c in classes if c != "plain")
    replay = {"kind": "roundtrip-one", "table": spec, "only": name}
    res.count("rt:" + name)
    digits = spec.get("digits", 4)
    try:
        text = getattr(t, name)()
    except Exception as e:  # noqa: BLE001
        res.evals += 1
        res.witness(exc_mechanism(f"C20/to_delimited_string/{name}", e), table=spec, error=repr(e)[:300], replay_case=replay)
        return
    if len(header) == 1 and any(r[0] == "" for r in rows):
        # a one-column row holding '' is an empty line in any unquoted rendering: not representable, not judged
        res.count("to_string:one-column-empty-cell(not judged)")
        return
    parsed = list(csv.reader(io.StringIO(text, newline=""), delimiter=sep))
    exp = [header] + [[None if v is None else formatted_text(v, ty, digits) for v, ty in zip(r, types)] for r in rows]
    res.evals += 1
    res.count("decided:" + name)

    def same(p, e):
        if len(p) != len(e):
            return False
        for pr, er in zip(p, e):
            if len(pr) != len(er):
                return False
            for pv, ev in zip(pr, er):
                if ev is None:
                    continue  # the rendering of a missing value in formatted output is not pinned by the property
                if pv != ev:
                    return False
        return True

    if same(parsed, exp):
        if n >= 2 and (hostile or dup):
            res.sig("rt", name, tuple(sorted(set(types))), dup, tuple(hostile))
        return
    # classify by the model: which hostile class is present that the quoting rule must handle
    strs = [v for r in rows for v in r if isinstance(v, str)]
    if any(sep in h or '"' in h or "\n" in h for h in header):
        cls = "header-needs-quoting"
    elif any("\n" in s or "\r" in s for s in strs):
        cls = "newline-not-quoted"
    elif any(s.startswith('"') or ('"' in s and sep in s) for s in strs):
        cls = "quote-not-escaped"
    elif any(sep in s for s in strs):
        cls = "delimiter"
    else:
        cls = "cell-text"
    res.witness(f"C20/to_delimited_string/{cls}", method=name, table=spec, got=parsed, expected=exp, text=text, replay_case=replay)


def run_roundtrip_batch(res, case):
    rng = random.Random(case["seed"])
    workdir = pathlib.Path(tempfile.mkdtemp(prefix="c20-", dir=os.getcwd()))
    try:
        for _ in range(case["n"]):
            spec = gen_spec(rng, "roundtrip", maxrows=8)
            run_roundtrip(res, spec, workdir=workdir)
            res.sample({"roundtrip_table": spec})
    finally:
        shutil.rmtree(workdir, ignore_errors=True)


# ---------------------------------------------------------------------------


# ---------------------------------------------------------------------------
# live histories: attribute / column mutations on ONE table object, every read path observed after every step


LIVE_VARIANTS = ["tsv", "csv", "csv.gz", "json", "pickle", "sep=;"]
LIVE_FILE = {"tsv": "l.tsv", "csv": "l.csv", "csv.gz": "l.csv.gz", "json": "l.json", "pickle": "l.pickle", "sep=;": "l.txt"}


def gen_live_spec(rng):
    ncol = rng.randint(2, 5)
    types = [rng.choice(["int", "int", "float", "str", "str", "bool"]) for _ in range(ncol)]
    n = rng.randint(1, 6)
    rows = []
    for i in range(n):
        rows.append([gen_cell(rng, t) for t in types])
    # make some columns usable as an index (unique values)
    for j, t in enumerate(types):
        if t in ("int", "str") and rng.random() < 0.6:
            for i in range(n):
                rows[i][j] = (10 + i * 3) if t == "int" else f"r{i}{'ab'[i % 2]}"
            if rng.random() < 0.5:
                perm = list(range(n))
                rng.shuffle(perm)
                col = [rows[i][j] for i in perm]
                for i in range(n):
                    rows[i][j] = col[i]
    spec = {"header": [f"c{i}" for i in range(ncol)], "types": types, "rows": rows, "title": "", "legend": "", "index": None, "digits": 4}
    if rng.random() < 0.2:
        cands = [j for j, t in enumerate(types) if t in ("int", "str") and len({r[j] for r in rows}) == n]
        if cands:
            spec["index"] = spec["header"][rng.choice(cands)]
    spec["variant0"] = rng.choice(LIVE_VARIANTS)
    return spec


class Live:
    """model: header order + rows + index_name + per-column format templates"""

    def __init__(self, res, spec, ops=None, rng=None, depth=0, workdir=None):
        self.res, self.spec0, self.replay_ops, self.rng, self.depth, self.workdir = res, spec, ops, rng, depth, workdir
        self.done = []
        hdr = list(spec["header"])
        idx = spec.get("index")
        order = [hdr.index(c) for c in ([idx] + [c for c in hdr if c != idx] if idx else hdr)]
        self.header = [hdr[i] for i in order]
        self.types = [spec["types"][i] for i in order]
        self.rows = [tuple(r[i] for i in order) for r in spec["rows"]]
        self.index = idx
        self.templates = {}
        self.t = None

    def replay_case(self, op=None):
        return {"kind": "live-one", "table": self.spec0, "ops": list(self.done) + ([op] if op else [])}

    def state(self):
        return {"header": self.header, "rows": [list(r) for r in self.rows], "index": self.index}

    def fail(self, path, after, **detail):
        self.res.witness(f"C20/live/{path}/after-{after}", model=self.state(), history=[o["op"] for o in self.done], replay_case=self.replay_case(), **detail)

    # -- all read paths -------------------------------------------------------
    def observe(self, after, variant):
        """True if every read path agrees with the model; one witness (the first failing path) otherwise"""
        from cogent3 import load_table

        res, t = self.res, self.t
        hdr, rows, n = self.header, self.rows, len(self.rows)
        exp_rows = nrows(rows)
        checks = []

        def path(name, fn):
            checks.append((name, fn))

        path("header", lambda: (list(t.header), hdr))
        path("shape", lambda: (tuple(t.shape), (n, len(hdr))))
        path("columns.order", lambda: (list(t.columns.order), hdr))
        path("columns", lambda: ({c: nrow(t.columns[c].tolist()) for c in t.columns}, {c: tuple(norm(r[j]) for r in rows) for j, c in enumerate(hdr)}))
        path("columns.to_dict", lambda: ({c: nrow(v) for c, v in t.columns.to_dict().items()}, {c: tuple(norm(r[j]) for r in rows) for j, c in enumerate(hdr)}))
        path("array", lambda: (nrows(t.array.tolist()), exp_rows))
        path("columns.array", lambda: (nrows(t.columns.array.tolist()), exp_rows))
        path("to_list", lambda: (nrows([(v,) for v in t.to_list()] if len(hdr) == 1 else t.to_list()), exp_rows))
        if self.index:
            keys = [norm(r[hdr.index(self.index)]) for r in rows]
        else:
            keys = [norm(i) for i in range(n)]
        exp_dict = {k: {c: norm(v) for c, v in zip(hdr, r)} for k, r in zip(keys, rows)}
        path("to_dict", lambda: ({norm(k): {c: norm(v) for c, v in d.items()} for k, d in t.to_dict().items()}, exp_dict))
        path("iter-rows", lambda: ([{c: norm(v) for c, v in r.to_dict().items()} for r in t], [{c: norm(v) for c, v in zip(hdr, r)} for r in rows]))
        path("to_rich_dict", lambda: (
            (list(t.to_rich_dict()["data"]["order"]), {c: nrow(d["values"]) for c, d in t.to_rich_dict()["data"]["columns"].items()}),
            (hdr, {c: tuple(norm(r[j]) for r in rows) for j, c in enumerate(hdr)}),
        ))
        # single cells
        if not self.index or self.types[hdr.index(self.index)] == "str":
            ki = hdr.index(self.index) if self.index else None
            sel = [(i, j) for i in range(n) for j in range(len(hdr))][:: max(1, (n * len(hdr)) // 6)]
            path("getitem-cell", lambda: ([norm(t[(rows[i][ki] if self.index else i), hdr[j]]) for i, j in sel], [norm(rows[i][j]) for i, j in sel]))
        path("getitem-columns", lambda: (nrows(t[:, list(hdr)].array.tolist()), exp_rows))

        def to_csv_path():
            if len(hdr) == 1 and any(r[0] == "" for r in rows):
                return (0, 0)
            parsed = list(csv.reader(io.StringIO(t.to_csv(), newline=""), delimiter=","))
            exp = [hdr]
            for r in rows:
                out = []
                for c, ty, v in zip(hdr, self.types, r):
                    tmpl = self.templates.get(c)
                    out.append(tmpl % v if tmpl else formatted_text(v, ty, 4))
                exp.append(out)
            return (parsed, exp)

        path("to_csv", to_csv_path)

        def write_path():
            fam = family(variant)
            p = self.workdir / LIVE_FILE[variant]
            if p.exists():
                p.unlink()
            kw = {"sep": ";"} if variant == "sep=;" else {}
            t.write(p, **kw)
            out = {}
            lkw = dict(kw)
            if fam == "delimited":
                sep = SEP_OF[variant]
                opener = gzip.open if str(p).endswith(".gz") else open
                with opener(p, "rt", newline="") as f:
                    parsed = list(csv.reader(f, delimiter=sep))
                if self.title_set:
                    parsed = parsed[1:]
                    lkw["with_title"] = True
                if self.legend_set:
                    parsed = parsed[:-1]
                    lkw["with_legend"] = True
                out["file"] = parsed
            g = load_table(p, **lkw)
            ghdr, grows, _ = observe(g)
            text = file_text if fam == "delimited" else obj_text
            out["reload"] = (ghdr, [[obj_text(v) for v in r] for r in grows])
            exp = {"reload": (hdr, [[text(v) for v in r] for r in rows])}
            if fam == "delimited":
                exp["file"] = [hdr] + [[file_text(v) for v in r] for r in rows]
            return (out, exp)

        path(f"write-reload", write_path)

        for name, fn in checks:
            res.evals += 1
            res.count("live-read:" + name)
            try:
                got, exp = fn()
            except Exception as e:  # noqa: BLE001
                self.res.witness(
                    exc_mechanism(f"C20/live/{name}/after-{after}", e), model=self.state(), history=[o["op"] for o in self.done],
                    error=repr(e)[:300], variant=variant, replay_case=self.replay_case(),
                )
                return False
            if got != exp:
                self.fail(name, after, got=got, expected=exp, variant=variant)
                return False
        if n >= 2:
            res.sig("live", after, tuple(o["op"] for o in self.done[-3:]), bool(self.index), variant)
        return True

    # -- driver ----------------------------------------------------------------
    def run(self):
        res = self.res
        self.title_set = self.legend_set = False
        try:
            self.t = make_real(self.spec0)
        except Exception as e:  # noqa: BLE001
            res.evals += 1
            res.witness(exc_mechanism("C20/live/make_table", e), table=self.spec0, error=repr(e)[:300], replay_case=self.replay_case())
            return
        res.count("live-tables")
        if not self.observe("make_table", self.spec0.get("variant0", "tsv")):
            return
        steps = self.replay_ops if self.replay_ops is not None else range(self.depth)
        for st in steps:
            op = st if isinstance(st, dict) else self.gen_op()
            if op is None:
                break
            res.count("live-op:" + op["op"])
            ok = self.apply(op)
            self.done.append(op)
            if not ok:
                break
            if not self.observe(op["op"], op["variant"]):
                break

    def gen_op(self):
        rng = self.rng
        hdr, n = self.header, len(self.rows)
        step = len(self.done)
        variant = rng.choice(LIVE_VARIANTS)
        for _ in range(8):
            kind = rng.choice(["set-index", "set-index", "set-index", "clear-index", "set-title", "set-legend", "format_column", "set-format", "add-column", "del-column", "replace-column", "read-again"])
            if kind == "set-index":
                cands = [c for c, t in zip(hdr, self.types) if t in ("int", "str", "float", "bool") and c != self.index]
                if not cands:
                    continue
                # prefer a column that is not already first, and mostly a usable (unique) one
                uniq = [c for c in cands if len({norm(r[hdr.index(c)]) for r in self.rows}) == n]
                pool = uniq if uniq and rng.random() < 0.85 else cands
                late = [c for c in pool if hdr.index(c) > 0]
                return {"op": kind, "col": rng.choice(late or pool), "variant": variant}
            if kind == "clear-index":
                if not self.index:
                    continue
                return {"op": kind, "variant": variant}
            if kind == "set-title":
                return {"op": kind, "value": rng.choice(["T1", "my title", ""]), "variant": variant}
            if kind == "set-legend":
                return {"op": kind, "value": rng.choice(["a legend", ""]), "variant": variant}
            if kind == "format_column":
                fl = [c for c, t in zip(hdr, self.types) if t == "float"]
                if not fl:
                    continue
                return {"op": kind, "col": rng.choice(fl), "template": rng.choice(["%.2f", "%.1e"]), "variant": variant}
            if kind == "set-format":
                return {"op": kind, "value": rng.choice(["md", "rst", "simple", "tsv"]), "variant": variant}
            if kind == "add-column":
                ty = rng.choice(["int", "float", "str", "bool"])
                return {"op": kind, "name": f"n{step}", "type": ty, "values": [gen_cell(rng, ty) for _ in range(n)], "variant": variant}
            if kind == "del-column":
                cands = [c for c in hdr if c != self.index]
                if len(hdr) < 2 or not cands:
                    continue
                return {"op": kind, "col": rng.choice(cands), "variant": variant}
            if kind == "replace-column":
                cands = [c for c in hdr if c != self.index]
                if not cands:
                    continue
                c = rng.choice(cands)
                ty = self.types[hdr.index(c)]
                return {"op": kind, "col": c, "values": [gen_cell(rng, ty) for _ in range(n)], "variant": variant}
            if kind == "read-again":
                return {"op": kind, "variant": variant}
        return None

    def apply(self, op):
        """mutate the live table and the model; False stops the history"""
        t, k = self.t, op["op"]
        hdr = self.header
        try:
            if k == "set-index":
                c = op["col"]
                j = hdr.index(c)
                unique = len({norm(r[j]) for r in self.rows}) == len(self.rows)
                try:
                    t.index_name = c
                except ValueError as e:
                    if not unique and "unique" in str(e):
                        self.res.refused += 1  # documented: all values of an index column must be unique
                        self.res.count("live:set-index-refused-not-unique")
                        return True
                    raise
                if not unique:
                    self.res.evals += 1
                    self.fail("index_name", "set-index-not-unique-accepted", column=c)
                    return False
                order = [j] + [i for i in range(len(hdr)) if i != j]
                self.header = [hdr[i] for i in order]
                self.types = [self.types[i] for i in order]
                self.rows = [tuple(r[i] for i in order) for r in self.rows]
                self.index = c
                if j > 0:
                    self.res.count("live:set-index-moves-column")
            elif k == "clear-index":
                t.index_name = None
                self.index = None
            elif k == "set-title":
                t.title = op["value"]
                self.title_set = bool(op["value"])
            elif k == "set-legend":
                t.legend = op["value"]
                self.legend_set = bool(op["value"])
            elif k == "format_column":
                t.format_column(op["col"], op["template"])
                self.templates[op["col"]] = op["template"]
            elif k == "set-format":
                t.format = op["value"]
            elif k == "add-column":
                t.columns[op["name"]] = list(op["values"])
                self.header = hdr + [op["name"]]
                self.types = self.types + [op["type"]]
                self.rows = [r + (v,) for r, v in zip(self.rows, op["values"])]
            elif k == "del-column":
                j = hdr.index(op["col"])
                del t.columns[op["col"]]
                self.header = hdr[:j] + hdr[j + 1 :]
                self.types = self.types[:j] + self.types[j + 1 :]
                self.rows = [r[:j] + r[j + 1 :] for r in self.rows]
                self.templates.pop(op["col"], None)
            elif k == "replace-column":
                j = hdr.index(op["col"])
                t.columns[op["col"]] = list(op["values"])
                self.rows = [r[:j] + (v,) + r[j + 1 :] for r, v in zip(self.rows, op["values"])]
            elif k == "read-again":
                pass
        except Exception as e:  # noqa: BLE001
            self.res.evals += 1
            self.res.witness(
                exc_mechanism(f"C20/live/mutate/{k}", e), model=self.state(), history=[o["op"] for o in self.done], op=op,
                error=repr(e)[:300], replay_case=self.replay_case(op),
            )
            return False
        return True


def run_live_batch(res, case):
    rng = random.Random(case["seed"])
    workdir = pathlib.Path(tempfile.mkdtemp(prefix="c20-", dir=os.getcwd()))
    try:
        for _ in range(case["n"]):
            spec = gen_live_spec(rng)
            lv = Live(res, spec, rng=rng, depth=rng.randint(2, 6 if case.get("tier") != "thorough" else 9), workdir=workdir)
            lv.run()
            if lv.done:
                res.sample({"live_table": spec, "ops": [o["op"] for o in lv.done]})
    finally:
        shutil.rmtree(workdir, ignore_errors=True)


def run_live_one(res, case):
    workdir = pathlib.Path(tempfile.mkdtemp(prefix="c20-", dir=os.getcwd()))
    try:
        Live(res, case["table"], ops=case["ops"], workdir=workdir).run()
    finally:
        shutil.rmtree(workdir, ignore_errors=True)


def run_case(case):
    res = Result()
    kind = case["kind"]
    if kind == "live":
        run_live_batch(res, case)
        return res
    if kind == "live-one":
        run_live_one(res, case)
        return res
    if kind == "chain":
        run_chain_batch(res, case)
    elif kind == "chain-one":
        Chain(res, case["table"], ops=case["ops"]).run()
    elif kind == "roundtrip":
        run_roundtrip_batch(res, case)
    elif kind == "roundtrip-one":
        run_roundtrip(res, case["table"], only=case.get("only"))
    return res


REQUIRED = [
    "op:sorted",
    "op:filtered",
    "op:count",
    "op:count_unique",
    "op:distinct_values",
    "op:to_list",
    "op:get_columns",
    "op:with_new_column",
    "op:appended",
    "op:joined",
    "op:cross",
    "op:transposed",
    "sorted:multi-key-reverse",
    "sorted:duplicate-keys",
    "filtered:callable",
    "filtered:expr",
    "join:duplicate-keys-both-sides",
    "join:colliding-column-name-prefixed",
    "rt:tsv",
    "rt:csv",
    "rt:tsv.gz",
    "rt:csv.gz",
    "rt:compress=True",
    "rt:sep=;",
    "rt:json",
    "rt:pickle",
    "rt:to_csv",
    "rt:to_tsv",
    "rt-class:delimited:delimiter",
    "rt-class:delimited:quote",
    "rt-class:delimited:newline",
    "rt-class:delimited:empty",
    "rt-class:delimited:missing",
    "rt:delimited:zero-rows",
    "rt:numeric-column-checked",
    "rt:csv+sep=tab",
    "rt:tsv+delimiter=;",
    "rt:tsv+sep=,",
    "rt:csv.gz+delimiter=|",
    "rt:tsv.gz+sep=;",
    "rt:static:tsv",
    "rt:static:csv.gz",
    "rt:float-column-nan-or-inf-in-first-row",
    "rt:float-column-nan-or-inf-in-later-row",
    "rt:float-column-extreme-or-negative-zero",
    "join:natural-shared-columns-in-different-order",
    "live-op:set-index",
    "live-op:clear-index",
    "live-op:add-column",
    "live-op:del-column",
    "live-op:replace-column",
    "live-op:set-title",
    "live-op:format_column",
    "live:set-index-moves-column",
    "live-read:array",
    "live-read:to_dict",
    "live-read:write-reload",
]


def required(counters, tier):
    return [k for k in REQUIRED if counters.get(k, 0) == 0]
