"""C10 — every serialisable object round-trips, whatever state it is in.

Shape B (boundary recorder, oracle = equality of two observations of real objects).

For every family of serialisable objects a *history generator* drives the real object through view / mutation
operations; after every step of the history the current object is sent through three channels

    json    deserialise_object(json.loads(obj.to_json()))
    rich    deserialise_object(obj.to_rich_dict())
    pickle  pickle.loads(pickle.dumps(obj))

and an *observation vector* (plain str / int / float / list / dict, built by the harness from the object's public
API) of the reconstruction is compared, component by component, with the one taken from the original before it
was serialised.  The first diverging step of a history is the witness.  The deserialiser registry is walked at
run time; every concrete class it serves needs a producer here, otherwise the run is inconclusive.
"""

import copy as _copy
import inspect
import json
import math
import os
import pickle
import random
import tempfile

import numpy as np

from vmon.core import Result, exc_mechanism
from vmon.models import lfmodel as M

ID = "C10"
LEVEL = "exploration"
RULE = (
    "Seeded histories per family; a round trip through json / rich dict / pickle after EVERY step (the first "
    "differing component of a channel is the witness, that channel is then left alone for the rest of that history). "
    "Families: old and new Sequence classes of every moltype (slice, strided and negative-step slice, rc, "
    "to_moltype, annotation_offset, add_feature, attached Basic/Gff db, copy, deepcopy, info, degap, slice-by-"
    "feature), Array*Sequence, old SeqView and new SeqsData taken from such objects; old/new SequenceCollection "
    "(built from strings or from sequence views; take_seqs, rc, add_feature, db, rename_seqs, degap, to_moltype, "
    "info, deepcopy), Alignment and ArrayAlignment (column slice, stride, rc, take_seqs, take_positions, "
    "omit_gap_pos, sequence and alignment features, db, rename_seqs, to_type, info, deepcopy), Aligned rows of such "
    "alignments (slice, rc); PhyloNode / TreeNode (rooted_at, rooted_with_tip, unrooted, get_sub_tree, prune, "
    "sorted, scaled lengths, bifurcating, root_at_midpoint, extra edge params, None / changed lengths, renamed "
    "nodes incl. the root); Table (sorted, filtered, get_columns, with_new_column, with_new_header, appended, "
    "joined, transposed, row slices, index_name, title/legend, digits/space/max_width/missing_data/column templates, "
    "format_column, column assignment); DictArray 1-3D / DistanceMatrix (indexing, transposition, normalisation, "
    "take_dists, drop_invalid, in-place cell writes incl. nan); old alphabets (every moltype's alphabets, word "
    "alphabets, gap motif, subsets, codon alphabets, JointEnumeration) and MolTypes, new Char/Kmer/Codon alphabets "
    "and new MolTypes (pickle only: they have no to_json); IndelMap / FeatureMap (slice, reversal, scaling, joins, "
    "inverse, covered, shadow, from IndelMap); Basic/Gff/Genbank annotation dbs (add_feature, add_records, generated "
    "GFF3 / GenBank text through load_annotations, update, union, subset, deepcopy) and legacy annotation dicts; "
    "substitution models: every catalogue model and every concrete class with non-default options; likelihood "
    "functions (lfmodel.gen_problem: nucleotide / codon / protein / dinucleotide / discrete-time models, scoped "
    "rules, rate bins, multi-locus; then constant / bounded / independent / edge- and clade-scoped rules, motif "
    "probs, names, a few optimiser evaluations) and SequenceLikelihoodFunction; app results (generic, tabular, "
    "model, model_collection, hypothesis, bootstrap) and NotCompleted (direct and produced by apps). Non-trivial = "
    "the object's history has >=1 view/mutation step (for models: non-default construction options); unusual-but-"
    "legal values are part of every generator (asymmetric DistanceMatrix cells written one direction at a time, "
    "tree / taxon / sequence / row names with an internal blank or punctuation incl. reassign_names, numeric-"
    "looking and look-alike labels, non-string table index values, mixed-type columns, a parameter constant on "
    "some edges and bounded on the others; rows with leading / trailing gap runs and all-gap rows, then "
    "Alignment.with_modified_termini(), Aligned.with_termini_unknown(), IndelMap(termini_unknown=True) on "
    "terminal-gap / all-gap / no-terminal-gap layouts, with the '?' rendering and the termini_unknown flag observed); "
    "distinct = "
    "(type, last <=4 history op kinds, channel)."
)
LEVEL_TEXT = (
    "Every object family named by the property is driven through seeded histories and serialised after every step "
    "through all three channels; the observation vector of each reconstruction is compared with the original's. "
    "The registry of deserialisers is walked at run time and each concrete class it serves must have been round-"
    "tripped, otherwise the run is inconclusive. Sampled, not exhaustive."
)
LEVEL_NOTE = (
    "held = held on the executions listed in the evidence; the oracle is equality of two observations made through "
    "the same public API (str, to_dict, parent_coordinates, get_features, distances, to_list, arrays, records, "
    "lnL, get_param_rules, ...), so a defect that distorts original and copy alike is invisible here (C01-C09, "
    "C17, C20 decide those)"
)
TECHNIQUE = "runtime monitoring: round-trip recorder over three channels + observation-vector equality after every history step"
ASSUMPTIONS = [
    "observational equality = equality of the observation vector defined per family in this module; floats are compared with rel/abs tolerance 1e-9 (substitution models 1e-8; likelihood functions and results holding them 1e-5, because parameter rules export probabilities through adjusted_gt_minprob(minprob=1e-6) by design)",
    "documented omissions are not demanded: new-style Sequence / SequenceCollection rich dict and json do not restore the annotation db; info['Refs'] is dropped; Aligned.to_rich_dict excludes annotations (the alignment carries the db); SeqView / SeqsData export re-bases coordinates to the truncated string",
    "documented class substitutions are accepted: Array*Sequence come back as the moltype's Sequence class, TreeNode as PhyloNode (json / rich dict); tuple vs list and numpy vs python scalars are not distinguished",
    "a component of the observation vector that cannot be observed on the ORIGINAL (the accessor raises) is skipped and counted; an operation of a history that raises is skipped and counted (those belong to the properties about the operation)",
    "tree names needing newick escaping and unnamed / duplicate node names are avoided (recorded under C09)",
]
TIMEOUT = {"quick": 1800, "thorough": 9000}

CHANNELS = ("json", "rich", "pickle")


# ---------------------------------------------------------------------------
# generic machinery


def qual(c):
    c = c if inspect.isclass(c) else type(c)
    return f"{c.__module__}.{c.__qualname__}"


def D(data):
    from cogent3.util.deserialise import deserialise_object

    return deserialise_object(data)


def roundtrip(obj, ch):
    if ch == "json":
        return D(json.loads(obj.to_json()))
    if ch == "rich":
        return D(obj.to_rich_dict())
    if ch == "jsonrich":  # objects with to_rich_dict but no to_json
        return D(json.loads(json.dumps(obj.to_rich_dict())))
    return pickle.loads(pickle.dumps(obj))


def exc_mech(prefix, e, ch):
    """like core.exc_mechanism; an exception without a cogent3 frame comes from the json / pickle machinery"""
    from vmon.core import origin_of

    o = origin_of(e)
    if o is None:
        return f"{prefix}/raises-{type(e).__name__}@{'pickle' if ch == 'pickle' else 'json'}-machinery"
    return f"{prefix}/raises-{type(e).__name__}@{o}"


RAISED = "__raised__"


def norm(o, depth=0):
    """plain-python normal form of an observation"""
    if depth > 40:
        return "<deep>"
    if o is None or isinstance(o, bool):
        return o
    if isinstance(o, str):
        return str(o)
    if isinstance(o, np.generic):
        o = o.item()
        if isinstance(o, str):
            return o
    if isinstance(o, bool):
        return o
    if isinstance(o, int):
        return int(o)
    if isinstance(o, float):
        return float(o)
    if isinstance(o, complex):
        return [o.real, o.imag]
    if isinstance(o, bytes):
        return o.decode("latin1")
    if isinstance(o, np.ndarray):
        return norm(o.tolist(), depth + 1)
    if isinstance(o, dict):
        return {keystr(k): norm(v, depth + 1) for k, v in o.items()}
    if isinstance(o, (list, tuple)):
        return [norm(v, depth + 1) for v in o]
    if isinstance(o, (set, frozenset)):
        return sorted((norm(v, depth + 1) for v in o), key=repr)
    if isinstance(o, slice):
        return ["slice", o.start, o.stop, o.step]
    return f"<{type(o).__name__}>"


def keystr(k):
    if isinstance(k, (tuple, list)):
        return "|".join(str(x) for x in k)
    return str(k)


def close(a, b, tol):
    if isinstance(a, float) and math.isnan(a):
        return isinstance(b, float) and math.isnan(b)
    if isinstance(b, float) and math.isnan(b):
        return False
    if a == b:
        return True
    if math.isinf(a) or math.isinf(b):
        return False
    return abs(a - b) <= tol * max(1.0, abs(a), abs(b))


def diff(a, b, tol=1e-9, path=""):
    """None if equal, else (path, a, b) of the first difference"""
    num = (int, float)
    if isinstance(a, num) and isinstance(b, num) and not isinstance(a, bool) and not isinstance(b, bool):
        return None if close(float(a), float(b), tol) else (path, a, b)
    if type(a) is not type(b):
        return (path, a, b)
    if isinstance(a, dict):
        if set(a) != set(b):
            return (path + "/<keys>", sorted(a), sorted(b))
        for k in a:
            d = diff(a[k], b[k], tol, f"{path}/{k}")
            if d:
                return d
        return None
    if isinstance(a, list):
        if len(a) != len(b):
            return (path + "/<len>", a if len(a) < 30 else len(a), b if len(b) < 30 else len(b))
        for i, (x, y) in enumerate(zip(a, b)):
            d = diff(x, y, tol, f"{path}/{i}")
            if d:
                return d
        return None
    return None if a == b else (path, a, b)


def guard(fn):
    try:
        return norm(fn())
    except Exception as e:  # noqa: BLE001
        return {RAISED: type(e).__name__, "msg": str(e)[:120]}


def is_raised(v):
    return isinstance(v, dict) and RAISED in v


def observe(components, obj):
    """components: list of (name, fn(obj))"""
    return {name: guard(lambda fn=fn: fn(obj)) for name, fn in components}


class Item:
    """one object state to be round-tripped"""

    def __init__(self, label, obj, components, channels=CHANNELS, skip=None, tol=1e-9, state=None, accept_class=None, mech=None):
        self.label = label  # type label used in signatures / counters
        self.mech = mech or label  # family label used in mechanisms (one root cause -> one mechanism)
        self.obj = obj
        self.components = components
        self.channels = channels
        self.skip = skip or {}  # channel -> set of component names not demanded on that channel (G guards)
        self.tol = tol
        self.state = state  # optional callable obj -> structural class string for the mechanism
        self.accept_class = accept_class or {}  # channel -> set of acceptable class names for the reconstruction


def check_item(res, item, hist, desc, replay_case, muted=None):
    """round trip `item` through its channels; returns False when a witness was produced.

    muted: set of (channel, component) already witnessed earlier in this history ('*' = the whole channel): the
    first diverging step is the witness, later steps keep being checked on everything else."""
    muted = muted if muted is not None else set()
    obj = item.obj
    label = item.label
    mech = item.mech
    before = observe(item.components, obj)
    ok_all = True
    q = qual(obj)
    for ch in item.channels:
        if (ch, "*") in muted:
            continue
        try:
            r = roundtrip(obj, ch)
        except Exception as e:  # noqa: BLE001
            muted.add((ch, "*"))
            res.evals += 1
            res.count(f"roundtrip:{label}:{ch}")
            res.count("covered:" + q)
            res.witness(
                exc_mech(f"C10/{mech}/{ch}", e, ch),
                history=desc, error=repr(e)[:300], observed_original=before, replay_case=replay_case,
            )  # fmt: skip
            ok_all = False
            continue
        after = observe(item.components, r)
        res.evals += 1
        res.count(f"roundtrip:{label}:{ch}")
        res.count("covered:" + q)
        steps = [h for h in hist if h != "fresh"]
        if steps:
            res.sig(label, ">".join(steps[-4:]), ch)
        # class of the reconstruction
        cls_ok = type(r).__name__ == type(obj).__name__ and qual(r) == q
        if not cls_ok and qual(r) in item.accept_class.get(ch, ()):
            cls_ok = True
            res.count(f"class-substitution:{type(obj).__name__}->{type(r).__name__}")
        if not cls_ok:
            st = ""
            if item.state is not None:
                try:
                    st = "/" + item.state(obj)
                except Exception:  # noqa: BLE001
                    st = ""
            muted.add((ch, "*"))
            res.witness(
                f"C10/{mech}/{ch}/class-changed{st}", history=desc, original_class=q, got_class=qual(r), replay_case=replay_case
            )  # fmt: skip
            ok_all = False
            continue
        for name, _ in item.components:
            if name in item.skip.get(ch, ()) or (ch, name) in muted:
                continue
            if is_raised(before[name]):
                res.count(f"unobservable:{label}:{name}")
                continue
            d = diff(before[name], after[name], item.tol)
            if d:
                st = ""
                if item.state is not None:
                    try:
                        st = "/" + item.state(obj)
                    except Exception:  # noqa: BLE001
                        st = ""
                what = "raises-" + after[name][RAISED] if is_raised(after[name]) else "differs"
                # one root cause usually shows in several components: report the first one only and leave this
                # channel alone for the rest of this history (other histories keep covering it)
                muted.add((ch, "*"))
                res.witness(
                    f"C10/{mech}/{ch}/{name}-{what}{st}",
                    history=desc, component=name, at=d[0], original=d[1], reconstruction=d[2],
                    observed_original=before, replay_case=replay_case,
                )  # fmt: skip
                ok_all = False
                break
    # serialising must not change the original
    again = observe(item.components, obj)
    for name, _ in item.components:
        if is_raised(before[name]) or ("original", name) in muted:
            continue
        d = diff(before[name], again[name], item.tol)
        if d:
            muted.add(("original", name))
            res.evals += 1
            res.witness(
                f"C10/{mech}/serialising-changes-original/{name}",
                history=desc, at=d[0], before=d[1], after=d[2], replay_case=replay_case,
            )  # fmt: skip
            ok_all = False
            break
    return ok_all


def drive(res, kind, item_seed, gen, extra=None):
    """gen: generator yielding (Item, opkind, opdesc); serialise after every step"""
    hist = []
    desc = []
    replay = {"kind": "one", "family": kind, "item_seed": item_seed, **(extra or {})}
    steps = 0
    muted = set()
    for item, opkind, opdesc in gen:
        hist.append(opkind)
        desc.append(opdesc)
        if item is None:  # an operation that raised / was skipped: recorded in the history description only
            hist.pop()
            continue
        steps += 1
        res.count(f"op:{kind}:{opkind}")
        check_item(res, item, list(hist), list(desc), replay, muted)
    if steps:
        res.count(f"histories:{kind}")
    if desc:
        res.sample({"family": kind, "history": desc[:6]})


FAMILIES = {}
SPECIAL = {}


def family(name):
    def deco(fn):
        FAMILIES[name] = fn
        return fn

    return deco


def pick(rng, options):
    """class-determining choices cycle with the item's slot in its batch, so that every class is produced in every
    run (coverage requirements must not depend on luck); other choices are random"""
    slot = getattr(rng, "slot", None)
    if slot is None:
        return rng.choice(options)
    return options[slot % len(options)]


def try_op(res, kind, name, fn):
    """apply a history operation; an exception is not this property's business"""
    try:
        return True, fn()
    except Exception as e:  # noqa: BLE001
        res.count(f"op-raised:{kind}:{name}:{type(e).__name__}")
        return False, None


# ---------------------------------------------------------------------------
# sequences

SEQ_CHARS = {
    "dna": "ACGT",
    "rna": "ACGU",
    "protein": "ACDEFGHIKLMNPQRSTVWY",
    "protein_with_stop": "ACDEFGHIKLMNPQRSTVWY*",
    "text": "abcdxyzABCXYZ",
    "bytes": "ACGTxyz #@01",
}
NUCLEIC = ("dna", "rna")


def rand_seq_str(rng, mt, L, gaps=0.0, ambig=0.0):
    chars = SEQ_CHARS[mt]
    out = []
    for _ in range(L):
        r = rng.random()
        if r < gaps and mt not in ("text", "bytes"):
            out.append("-")
        elif r < gaps + ambig and mt in NUCLEIC:
            out.append(rng.choice("NRY"))
        else:
            out.append(rng.choice(chars))
    return "".join(out)


def info_clean(info):
    if info is None:
        return {}
    d = {k: v for k, v in dict(info).items() if k != "Refs"}
    return d


def mt_label(obj):
    mt = obj.moltype
    return getattr(mt, "label", None) or getattr(mt, "name", None)


def moltype_registered(obj):
    """whether obj.moltype == the instance get_moltype() hands out (cogent3 compares moltypes with == / is)"""
    mt = obj.moltype
    if hasattr(mt, "label"):
        from cogent3.core.moltype import get_moltype
    else:
        from cogent3.core.new_moltype import get_moltype
    return bool(get_moltype(mt_label(obj)) == mt)


def feature_obs(f):
    out = {"biotype": f.biotype, "name": f.name, "seqid": getattr(f, "seqid", None), "reversed": bool(getattr(f, "reversed", False))}
    try:
        out["coords"] = norm(f.map.get_coordinates())
    except Exception as e:  # noqa: BLE001
        out["coords"] = "raises " + type(e).__name__
    try:
        sl = f.get_slice()
        out["slice"] = norm(sl.to_dict()) if hasattr(sl, "to_dict") and not hasattr(sl, "parent_coordinates") else str(sl)
    except Exception as e:  # noqa: BLE001
        out["slice"] = "raises " + type(e).__name__
    return out


def features_obs(obj, **kw):
    feats = [feature_obs(f) for f in obj.get_features(allow_partial=True, **kw)]
    return sorted(feats, key=lambda d: json.dumps(d, sort_keys=True, default=str))


def seq_components(nucleic):
    comps = [
        ("string", lambda s: str(s)),
        ("name", lambda s: s.name),
        ("length", lambda s: len(s)),
        ("moltype", mt_label),
        ("moltype-equals-registered", moltype_registered),
        ("parent_coordinates", coords_obs),
        ("annotation_offset", lambda s: s.annotation_offset),
        ("info", lambda s: info_clean(s.info)),
        ("inner-slice", lambda s: [str(s[1:-1]), coords_obs(s[1:-1])]),
        ("features", features_obs),
    ]
    if nucleic:
        comps.append(("rc", lambda s: [str(s.rc()), coords_obs(s.rc())]))
    return comps


def coords_obs(s):
    # G: an empty view denotes no residues, its coordinates are not demanded
    return s.parent_coordinates() if len(s) else "empty"


def seq_state(s):
    sv = s._seq
    parts = []
    if getattr(sv, "step", 1) < 0:
        parts.append("reversed")
    if abs(getattr(sv, "step", 1)) > 1:
        parts.append("strided")
    if s.annotation_offset:
        parts.append("offset")
    if len(s) == 0:
        parts.append("empty")
    if getattr(sv, "seqid", None) != s.name:
        parts.append("seqid-differs-from-name")
    return "-".join(parts) or "plain"


def seq_item(s, impl, mt):
    label = f"{impl}.{type(s).__name__}"
    skip = {}
    if impl == "new":
        # G: new-style Sequence.to_rich_dict documents that the annotation db is not restored
        skip = {"json": {"features"}, "rich": {"features"}}
    return Item(label, s, seq_components(mt in NUCLEIC), skip=skip, state=seq_state, mech=f"{impl}.Sequence")


def make_db(rng, cls, seqids, hi, n=None, tag="d"):
    """a Basic/Gff annotation db with absolute coordinates"""
    from cogent3.core import annotation_db as A

    n = rng.randint(1, 4) if n is None else n
    db = {"Basic": A.BasicAnnotationDb, "Gff": A.GffAnnotationDb}[cls]()
    desc = []
    for i in range(n):
        spans = rand_spans(rng, hi, rng.choice([1, 1, 2, 3]))
        kw = dict(seqid=rng.choice(seqids), biotype=rng.choice(["gene", "CDS", "exon"]), name=f"{tag}{i}", spans=spans, strand=rng.choice(["+", "-", None]))
        if rng.random() < 0.3:
            kw["attributes"] = rng.choice(["note=a b", "ID=x;Parent=y"])
        if rng.random() < 0.2:
            kw["parent_id"] = "p1"
        db.add_feature(**kw)
        desc.append(kw)
    return db, desc


def rand_spans(rng, hi, k):
    hi = max(hi, 2)
    cuts = sorted(rng.sample(range(hi + 1), min(hi + 1, 2 * k)))
    return [(cuts[i], cuts[i + 1]) for i in range(0, len(cuts) - 1, 2)] or [(0, 1)]


def rand_slice(rng, L, strided=False):
    pts = [None] + list(range(-L - 1, L + 2))
    a, b = rng.choice(pts), rng.choice(pts)
    if rng.random() < 0.6 and L:
        a = rng.randint(0, L - 1)
        b = rng.randint(a, L)
    step = rng.choice([2, 3, -1, -2, -3, -1]) if strided else None
    if step is not None and step < 0 and a is not None and b is not None and a >= 0 and b >= 0:
        a, b = b, a
    return slice(a, b, step)


def gen_seq(res, rng, impl, depth):
    from cogent3 import make_seq

    mts = ["dna", "rna", "protein", "protein_with_stop", "text", "bytes", "dna"]
    mt = pick(rng, mts)
    L = rng.randint(1, 24)
    gaps = rng.choice([0, 0, 0.15])
    s0 = rand_seq_str(rng, mt, L, gaps=gaps, ambig=rng.choice([0, 0.1]))
    off = rng.choice([0, 0, 0, 3, 17])
    kw = dict(name=rng.choice(["s1", "s1", "seq 1", "chr|1.2", "7"]), moltype=mt, new_type=(impl == "new"))
    if off:
        kw["annotation_offset"] = off
    ok, s = try_op(res, "seq", "make_seq", lambda: make_seq(s0, **kw))
    if not ok:
        return
    yield seq_item(s, impl, mt), "fresh", {"make_seq": s0, **kw}
    nfeat = 0
    for _ in range(depth):
        ops = ["slice", "slice", "stride", "add_feature", "attach_db", "copy", "deepcopy", "info"]
        if mt in NUCLEIC:
            ops += ["rc", "rc", "to_moltype"]
        if "-" in str(s):
            ops += ["degap", "with_termini_unknown"]
        if nfeat and impl == "old":
            ops += ["slice-by-feature"]
        op = rng.choice(ops)
        L = len(s)
        d = {"op": op}
        if op in ("slice", "stride"):
            sl = rand_slice(rng, L, strided=(op == "stride"))
            d["slice"] = [sl.start, sl.stop, sl.step]
            ok, new = try_op(res, "seq", op, lambda: s[sl])
        elif op == "rc":
            ok, new = try_op(res, "seq", op, lambda: s.rc())
        elif op == "to_moltype":
            tgt = "rna" if mt_label(s) == "dna" else "dna"
            d["to"] = tgt
            ok, new = try_op(res, "seq", op, lambda: s.to_moltype(tgt))
        elif op == "add_feature":
            spans = rand_spans(rng, max(L, 1), rng.choice([1, 1, 2]))
            fk = dict(biotype=rng.choice(["gene", "exon"]), name=f"f{nfeat}", spans=spans)
            if rng.random() < 0.4:
                fk["strand"] = rng.choice(["+", "-"])
            d.update(fk)

            def _add(fk=fk):
                s.add_feature(**fk)
                return s

            ok, new = try_op(res, "seq", op, _add)
            nfeat += ok
        elif op == "attach_db":
            cls = rng.choice(["Basic", "Gff"])
            db, dd = make_db(rng, cls, [s.name, "other"], max(L + off, 2), tag=f"db{nfeat}_")
            d.update(cls=cls, records=dd)

            def _attach(db=db):
                s.annotation_db = db
                return s

            ok, new = try_op(res, "seq", op, _attach)
            nfeat += ok
        elif op == "copy":
            ok, new = try_op(res, "seq", op, lambda: s.copy())
        elif op == "deepcopy":
            ok, new = try_op(res, "seq", op, lambda: _copy.deepcopy(s))
        elif op == "info":
            val = rng.choice([1, 2.5, "txt", [1, 2], {"a": 1}])
            d["value"] = val

            def _info(val=val):
                s.info["k" + str(rng.randint(0, 2))] = val
                return s

            ok, new = try_op(res, "seq", op, _info)
        elif op == "rename":

            def _ren():
                s.name = rng.choice(["s1", "renamed", "other"])
                return s

            ok, new = try_op(res, "seq", op, _ren)
            d["name"] = s.name
        elif op == "with_termini_unknown":
            ok, new = try_op(res, "seq", op, lambda: s.with_termini_unknown())
        elif op == "degap":
            ok, new = try_op(res, "seq", op, lambda: s.degap())
        elif op == "slice-by-feature":

            def _sbf():
                feats = list(s.get_features(allow_partial=False))
                if not feats:
                    raise LookupError("no feature")
                f = feats[rng.randrange(len(feats))]
                return s[f]

            ok, new = try_op(res, "seq", op, _sbf)
        else:
            raise AssertionError(op)
        if not ok or new is None:
            yield None, op, {**d, "raised": True}
            continue
        s = new
        mtl = mt_label(s)
        yield seq_item(s, impl, mtl), op, d
        if len(s) == 0:
            break


def gen_seq_array(res, rng, depth):
    """Array*Sequence objects (moltype.make_array_seq / the codon classes); they come back as the moltype's Sequence"""
    from cogent3 import get_moltype
    from cogent3.core import sequence as S

    which = pick(rng, ["dna", "rna", "protein", "protein_with_stop", "bytes", "dna-codon", "rna-codon"])
    if which.endswith("codon"):
        mt = which.split("-")[0]
        s0 = rand_seq_str(rng, mt, 3 * rng.randint(1, 5))
        cls = S.ArrayDnaCodonSequence if mt == "dna" else S.ArrayRnaCodonSequence
        ok, s = try_op(res, "seq-array", "ctor", lambda: cls(s0, name="s1"))
    else:
        mt = which
        s0 = rand_seq_str(rng, mt, rng.randint(1, 16), gaps=rng.choice([0, 0.2]))
        ok, s = try_op(res, "seq-array", "make_array_seq", lambda: get_moltype(mt).make_array_seq(s0, name="s1"))
    if not ok:
        return
    comps = [
        ("string", lambda s: str(s)),
        ("name", lambda s: s.name),
        ("length", lambda s: len(str(s))),  # a codon array sequence counts codons, the Sequence it becomes counts residues
        ("moltype", mt_label),
        ("info", lambda s: info_clean(s.info)),
    ]
    target = qual(get_moltype(mt).make_seq(rand_seq_str(rng, mt, 3)))
    # documented: deserialise_seq rebuilds through moltype.make_seq, i.e. as the moltype's Sequence class
    item = lambda s: Item(f"old.{type(s).__name__}", s, comps, accept_class={"json": {target}, "rich": {target}}, mech="old.ArraySequence", state=lambda s: "gapped" if "-" in str(s) else "ungapped")  # noqa: E731
    yield item(s), "fresh", {"make_array_seq": s0, "moltype": mt, "class": type(s).__name__}
    for _ in range(depth):
        L = len(s)
        if L == 0 or which.endswith("codon"):
            break
        a = rng.randint(0, L - 1)
        b = rng.randint(a + 1, L)
        ok, new = try_op(res, "seq-array", "slice", lambda: s[a:b])
        if not ok or not hasattr(new, "to_rich_dict"):
            yield None, "slice", {"op": "slice", "slice": [a, b], "raised": True}
            continue
        s = new
        yield item(s), "slice", {"op": "slice", "slice": [a, b]}


@family("seq-array")
def _f_seq_array(res, rng, deep):
    return gen_seq_array(res, rng, rng.randint(1, 2))


# ---------------------------------------------------------------------------
# old SeqView / new SeqsData (taken from sequences / collections with a history)


def seqview_components():
    return [
        ("value", lambda v: v.value),
        ("string", lambda v: str(v)),
        ("seqid", lambda v: v.seqid),
        ("step", lambda v: v.step),
        ("length", lambda v: len(v)),
        ("is_reversed", lambda v: bool(v.is_reversed)),
        ("inner-slice", lambda v: str(v[1:-1])),
    ]


def gen_seqview(res, rng, depth):
    for item, op, d in gen_seq(res, rng, "old", depth):
        if item is None:
            yield None, op, d
            continue
        sv = item.obj._seq
        st = lambda v: ("reversed" if v.step < 0 else "forward") + ("-strided" if abs(v.step) > 1 else "")  # noqa: E731
        yield Item("old.SeqView", sv, seqview_components(), channels=("rich", "jsonrich", "pickle"), state=st), op, d


def seqsdata_components():
    return [
        ("names", lambda x: list(x.names)),
        ("strings", lambda x: {n: x.get_seq_str(seqid=n) for n in x.names}),
        ("arrays", lambda x: {n: x.get_seq_array(seqid=n) for n in x.names}),
        ("alphabet", lambda x: list(x.alphabet)),
        ("reversed", lambda x: x.reversed),
        ("seq_lengths", lambda x: x.seq_lengths()),
        ("views", lambda x: {n: str(x.get_seq_view(seqid=n)) for n in x.names}),
    ]


def gen_seqsdata(res, rng, depth):
    for item, op, d in gen_coll(res, rng, "new", depth):
        if item is None:
            yield None, op, d
            continue
        yield Item("new.SeqsData", item.obj.seqs, seqsdata_components(), channels=("rich", "jsonrich", "pickle")), op, d


# ---------------------------------------------------------------------------
# collections


def coll_components(impl, nucleic):
    comps = [
        ("names", lambda c: list(c.names)),
        ("to_dict", lambda c: c.to_dict()),
        ("moltype", mt_label),
        ("moltype-equals-registered", moltype_registered),
        ("info", lambda c: info_clean(c.info)),
        ("num_seqs", lambda c: c.num_seqs),
        ("seq-coordinates", lambda c: {n: coords_obs(c.get_seq(n)) for n in c.names}),
        ("seq-offsets", lambda c: {n: c.get_seq(n).annotation_offset for n in c.names}),
        ("subset", lambda c: c.take_seqs(list(c.names)[:1]).to_dict()),
        ("features", features_obs),
    ]
    if nucleic:
        comps.append(("rc", lambda c: c.rc().to_dict()))
    return comps


def coll_item(c, impl):
    skip = {}
    if impl == "new":
        # G: new-style SequenceCollection.to_rich_dict documents that the annotation db is not included
        skip = {"json": {"features"}, "rich": {"features"}}
    return Item(f"{impl}.SequenceCollection", c, coll_components(impl, mt_label(c) in NUCLEIC), skip=skip, mech="old.collections" if impl == "old" else "new.SequenceCollection")


def gen_coll(res, rng, impl, depth):
    from cogent3 import make_seq, make_unaligned_seqs

    mt = rng.choice(["dna", "dna", "rna", "protein", "text"])
    n = rng.randint(1, 4)
    names = rng.sample(["a", "b", "seq_c", "d1", "E", "sp 1", "x|y.1", "10"], n)
    new_type = impl == "new"
    from_views = impl == "old" and rng.random() < 0.35
    data = {nm: rand_seq_str(rng, mt, rng.randint(1, 16), gaps=rng.choice([0, 0, 0.2])) for nm in names}
    d0 = {"make_unaligned_seqs": data, "moltype": mt, "new_type": new_type}
    if from_views:
        seqs = []
        d0["views"] = {}
        for nm in names:
            s = make_seq(data[nm], name=nm, moltype=mt, annotation_offset=rng.choice([0, 0, 5]))
            sl = rand_slice(rng, len(s))
            s = s[sl]
            if mt in NUCLEIC and rng.random() < 0.4:
                s = s.rc()
                d0["views"][nm] = [sl.start, sl.stop, "rc"]
            else:
                d0["views"][nm] = [sl.start, sl.stop]
            seqs.append(s)
        if any(len(s) == 0 for s in seqs):
            return
        ok, c = try_op(res, "coll", "make-from-views", lambda: make_unaligned_seqs(seqs, moltype=mt))
    else:
        kw = dict(moltype=mt, new_type=new_type)
        if rng.random() < 0.5:
            kw["info"] = {"note": "x", "n": 3}
        ok, c = try_op(res, "coll", "make", lambda: make_unaligned_seqs(data, **kw))
    if not ok:
        return
    yield coll_item(c, impl), "fresh", d0
    nfeat = 0
    for _ in range(depth):
        ops = ["take_seqs", "take_seqs-negate", "add_feature", "attach_db", "rename_seqs", "info", "deepcopy"]
        if mt_label(c) in NUCLEIC:
            ops += ["rc", "rc", "to_moltype"]
        if any("-" in v for v in c.to_dict().values()):
            ops += ["degap"]
        op = rng.choice(ops)
        d = {"op": op}
        cur = list(c.names)
        if op.startswith("take_seqs"):
            k = rng.sample(cur, rng.randint(1, len(cur)))
            neg = op.endswith("negate")
            if neg and len(k) == len(cur):
                k = k[:-1]
            if neg and not k:
                yield None, op, {**d, "skipped": True}
                continue
            d["names"] = k
            ok, new = try_op(res, "coll", op, lambda: c.take_seqs(k, negate=neg))
        elif op == "rc":
            ok, new = try_op(res, "coll", op, lambda: c.rc())
        elif op == "to_moltype":
            tgt = "rna" if mt_label(c) == "dna" else "dna"
            d["to"] = tgt
            ok, new = try_op(res, "coll", op, lambda: c.to_moltype(tgt))
        elif op == "add_feature":
            sid = rng.choice(cur)
            Ls = len(c.get_seq(sid))
            fk = dict(seqid=sid, biotype=rng.choice(["gene", "exon"]), name=f"f{nfeat}", spans=rand_spans(rng, max(Ls, 1), rng.choice([1, 2])))
            d.update(fk)

            def _add(fk=fk):
                c.add_feature(**fk)
                return c

            ok, new = try_op(res, "coll", op, _add)
            nfeat += ok
        elif op == "attach_db":
            cls = rng.choice(["Basic", "Gff"])
            db, dd = make_db(rng, cls, cur, 12, tag=f"db{nfeat}_")
            d.update(cls=cls, records=dd)

            def _attach(db=db):
                c.annotation_db = db
                return c

            ok, new = try_op(res, "coll", op, _attach)
            nfeat += ok
        elif op == "rename_seqs":
            suffix = rng.choice(["_x", "2"])
            d["suffix"] = suffix
            ok, new = try_op(res, "coll", op, lambda: c.rename_seqs(lambda x: x + suffix))
        elif op == "info":
            val = rng.choice([1, 2.5, "txt", [1, 2]])
            d["value"] = val

            def _info(val=val):
                c.info["k"] = val
                return c

            ok, new = try_op(res, "coll", op, _info)
        elif op == "deepcopy":
            # the collection's own deepcopy(); copy.deepcopy() clones the MolType (no longer the registered instance),
            # which is the pickle defect of MolType seen through another door
            ok, new = try_op(res, "coll", op, lambda: c.deepcopy() if hasattr(c, "deepcopy") else _copy.deepcopy(c))
        elif op == "degap":
            ok, new = try_op(res, "coll", op, lambda: c.degap())
        else:
            raise AssertionError(op)
        if not ok or new is None:
            yield None, op, {**d, "raised": True}
            continue
        c = new
        yield coll_item(c, impl), op, d


# ---------------------------------------------------------------------------
# alignments and Aligned rows


def aln_components(cls_name, nucleic):
    comps = [
        ("names", lambda a: list(a.names)),
        ("to_dict", lambda a: a.to_dict()),
        ("moltype", mt_label),
        ("moltype-equals-registered", moltype_registered),
        ("info", lambda a: info_clean(a.info)),
        ("length", lambda a: len(a)),
        ("inner-slice", lambda a: a[1:-1].to_dict()),
        ("subset", lambda a: a.take_seqs(list(a.names)[:1]).to_dict()),
        ("degapped", lambda a: a.degap().to_dict()),
    ]
    if nucleic:
        comps.append(("rc", lambda a: a.rc().to_dict()))
    if cls_name == "Alignment":
        comps += [
            ("row-coordinates", lambda a: {n: coords_obs(a.named_seqs[n].data) for n in a.names}),
            ("row-offsets", lambda a: {n: a.named_seqs[n].data.annotation_offset for n in a.names}),
            ("row-maps", lambda a: {n: map_obs(a.named_seqs[n].map) for n in a.names}),
            ("row-termini-unknown", lambda a: {n: bool(a.named_seqs[n].map.termini_unknown) for n in a.names}),
            ("gapped-rows", lambda a: {n: str(a.get_gapped_seq(n)) for n in a.names}),
            ("seq-coordinates", lambda a: {n: coords_obs(a.get_seq(n)) for n in a.names}),
            ("features", features_obs),
            ("seq-features", lambda a: features_obs(a, on_alignment=False)),
            ("alignment-features", lambda a: features_obs(a, on_alignment=True)),
        ]
    return comps


def aln_item(a):
    cn = type(a).__name__
    return Item(cn, a, aln_components(cn, mt_label(a) in NUCLEIC), mech="old.collections")


def rand_aln_data(rng, mt, n, L, allow_all_gap=False):
    names = rng.sample(["a", "b", "seq_c", "d1", "E", "sp 1", "x|y.1", "10"], n)
    gaps = rng.choice([0.0, 0.15, 0.35])
    data = {}
    for nm in names:
        s = rand_seq_str(rng, mt, L, gaps=0)
        s = list(s)
        # gap runs
        i = 0
        while i < L:
            if rng.random() < gaps:
                run = rng.choice([1, 1, 2, 4])
                for j in range(i, min(L, i + run)):
                    s[j] = "-"
                i += run
            i += 1
        r = rng.random()
        if r < 0.35 and L >= 3:  # leading and / or trailing gap run (the state with_modified_termini() acts on)
            k1 = rng.choice([0, 1, 2, L // 3])
            k2 = rng.choice([0, 1, 2, L // 3])
            s[:k1] = "-" * k1
            if k2:
                s[L - k2 :] = "-" * k2
        if all(ch == "-" for ch in s) and not (allow_all_gap and rng.random() < 0.5):
            s[rng.randrange(L)] = SEQ_CHARS[mt][0]
        data[nm] = "".join(s)
    if all(set(v) == {"-"} for v in data.values()):
        nm = next(iter(data))
        data[nm] = SEQ_CHARS[mt][0] + data[nm][1:]
    return data


def gen_aln(res, rng, array_align, depth):
    from cogent3 import make_aligned_seqs

    mt = rng.choice(["dna", "dna", "rna", "protein"])
    n = rng.randint(1, 4)
    L = rng.randint(2, 18)
    data = rand_aln_data(rng, mt, n, L, allow_all_gap=not array_align)
    kw = dict(moltype=mt, array_align=array_align)
    if rng.random() < 0.5:
        kw["info"] = {"note": "x", "n": 3}
    d0 = {"make_aligned_seqs": data, **{k: v for k, v in kw.items()}}
    if not array_align and rng.random() < 0.3:
        # rows that are themselves views (common slice, offsets, optionally reverse complemented) of longer sequences
        from cogent3 import make_seq

        x = rng.randint(0, L - 1)
        y = rng.randint(x + 1, L)
        do_rc = mt in NUCLEIC and rng.random() < 0.4
        offs = {nm: rng.choice([0, 0, 7]) for nm in data}
        d0["rows-are-views"] = {"slice": [x, y], "rc": do_rc, "offsets": offs}

        def _mk():
            rows = []
            for nm, s in data.items():
                sq = make_seq(s, name=nm, moltype=mt, annotation_offset=offs[nm])[x:y]
                rows.append(sq.rc() if do_rc else sq)
            return make_aligned_seqs(rows, moltype=mt, array_align=False)

        ok, a = try_op(res, "aln", "make-from-views", _mk)
        first = "from-sequence-views"
    else:
        ok, a = try_op(res, "aln", "make", lambda: make_aligned_seqs(data, **kw))
        first = "fresh"
    if not ok:
        return
    yield aln_item(a), first, d0
    nfeat = 0
    for _ in range(depth):
        is_arr = type(a).__name__ == "ArrayAlignment"
        ops = ["slice", "slice", "take_seqs", "take_positions", "omit_gap_pos", "rename_seqs", "info", "to_type", "deepcopy", "with_modified_termini", "with_modified_termini"]
        if _ == 0 and getattr(rng, "slot", 1) % 3 == 0:
            ops = ["with_modified_termini"]  # every run has alignments in the termini-unknown state
        if mt_label(a) in NUCLEIC:
            ops += ["rc", "rc", "to_moltype"]
        if is_arr:
            ops += ["stride"]
        else:
            ops += ["add_feature-seq", "add_feature-aln", "attach_db"]
        op = rng.choice(ops)
        d = {"op": op}
        cur = list(a.names)
        La = len(a)
        if La == 0:
            break
        if op == "slice":
            x = rng.randint(0, La - 1)
            y = rng.randint(x + 1, La)
            d["slice"] = [x, y]
            ok, new = try_op(res, "aln", op, lambda: a[x:y])
        elif op == "stride":
            st = rng.choice([2, 3, -1, -2])
            d["step"] = st
            ok, new = try_op(res, "aln", op, lambda: a[::st])
        elif op == "rc":
            ok, new = try_op(res, "aln", op, lambda: a.rc())
        elif op == "to_moltype":
            tgt = "rna" if mt_label(a) == "dna" else "dna"
            d["to"] = tgt
            ok, new = try_op(res, "aln", op, lambda: a.to_moltype(tgt))
        elif op == "take_seqs":
            k = rng.sample(cur, rng.randint(1, len(cur)))
            d["names"] = k
            ok, new = try_op(res, "aln", op, lambda: a.take_seqs(k))
        elif op == "take_positions":
            pos = sorted(rng.sample(range(La), rng.randint(1, La)))
            d["positions"] = pos
            ok, new = try_op(res, "aln", op, lambda: a.take_positions(pos))
        elif op == "with_modified_termini":
            ok, new = try_op(res, "aln", op, lambda: a.with_modified_termini())
        elif op == "omit_gap_pos":
            frac = rng.choice([None, 0.5])
            d["allowed_gap_frac"] = frac
            ok, new = try_op(res, "aln", op, lambda: a.omit_gap_pos(allowed_gap_frac=frac) if frac is not None else a.omit_gap_pos())
        elif op == "rename_seqs":
            suffix = rng.choice(["_x", "2"])
            d["suffix"] = suffix
            ok, new = try_op(res, "aln", op, lambda: a.rename_seqs(lambda x: x + suffix))
        elif op == "info":
            val = rng.choice([1, 2.5, "txt", [1, 2]])
            d["value"] = val

            def _info(val=val):
                a.info["k"] = val
                return a

            ok, new = try_op(res, "aln", op, _info)
        elif op == "to_type":
            d["array_align"] = not is_arr
            ok, new = try_op(res, "aln", op, lambda: a.to_type(array_align=not is_arr))
        elif op == "deepcopy":
            ok, new = try_op(res, "aln", op, lambda: a.deepcopy())
        elif op == "add_feature-seq":
            sid = rng.choice(cur)
            Ls = len(a.get_seq(sid))
            fk = dict(seqid=sid, biotype=rng.choice(["gene", "exon"]), name=f"f{nfeat}", spans=rand_spans(rng, max(Ls, 1), rng.choice([1, 2])), on_alignment=False)
            d.update(fk)

            def _add(fk=fk):
                a.add_feature(**fk)
                return a

            ok, new = try_op(res, "aln", op, _add)
            nfeat += ok
        elif op == "add_feature-aln":
            fk = dict(biotype="region", name=f"f{nfeat}", spans=rand_spans(rng, La, rng.choice([1, 2])), on_alignment=True)
            if rng.random() < 0.3:
                fk["strand"] = "-"
            d.update(fk)

            def _add(fk=fk):
                a.add_feature(**fk)
                return a

            ok, new = try_op(res, "aln", op, _add)
            nfeat += ok
        elif op == "attach_db":
            cls = rng.choice(["Basic", "Gff"])
            db, dd = make_db(rng, cls, cur, 12, tag=f"db{nfeat}_")
            d.update(cls=cls, records=dd)

            def _attach(db=db):
                a.annotation_db = db
                return a

            ok, new = try_op(res, "aln", op, _attach)
            nfeat += ok
        else:
            raise AssertionError(op)
        if not ok or new is None:
            yield None, op, {**d, "raised": True}
            continue
        a = new
        if len(a) == 0 or not a.names:
            break
        yield aln_item(a), op, d


def map_obs(m):
    spans = []
    for sp in m.spans:
        if sp.lost:
            spans.append(["unknown" if getattr(sp, "terminal", False) else "lost", int(sp.length)])
        else:
            spans.append([int(sp.start), int(sp.end), bool(getattr(sp, "reverse", False))])
    out = {"spans": spans, "parent_length": int(m.parent_length), "length": len(m)}
    if hasattr(m, "termini_unknown"):
        out["termini_unknown"] = bool(m.termini_unknown)
    return out


def aligned_components(nucleic):
    comps = [
        ("string", lambda r: str(r)),
        ("name", lambda r: r.name),
        ("length", lambda r: len(r)),
        ("map", lambda r: map_obs(r.map)),
        ("termini_unknown", lambda r: bool(r.map.termini_unknown)),
        ("data-string", lambda r: str(r.data)),
        ("data-coordinates", lambda r: coords_obs(r.data)),
        ("data-offset", lambda r: r.data.annotation_offset),
        ("moltype", lambda r: mt_label(r.data)),
        ("inner-slice", lambda r: str(r[1:-1])),
        ("gapped-seq", lambda r: str(r.get_gapped_seq())),
    ]
    if nucleic:
        comps.append(("rc", lambda r: str(r.rc())))
    return comps


def gen_aligned(res, rng, depth):
    """Aligned rows of alignments that already have a history, then sliced / reversed themselves"""
    last = None
    for item, op, d in gen_aln(res, rng, False, max(0, depth - 1)):
        if item is None:
            continue
        if type(item.obj).__name__ != "Alignment":
            continue
        last = (item, op, d)
        a = item.obj
        nm = rng.choice(list(a.names))
        r = a.named_seqs[nm]
        yield Item("Aligned", r, aligned_components(mt_label(a) in NUCLEIC)), op, {**d, "row": nm}
    if last is None:
        return
    a = last[0].obj
    nm = rng.choice(list(a.names))
    r = a.named_seqs[nm]
    for _ in range(2):
        L = len(r)
        if L == 0:
            break
        if _ == 0 and getattr(rng, "slot", 1) % 2 == 0 or rng.random() < 0.25:
            ok, new = try_op(res, "aligned", "row-with_termini_unknown", lambda: r.with_termini_unknown())
            op, d = "row-with_termini_unknown", {"op": "row-with_termini_unknown"}
        elif mt_label(a) in NUCLEIC and rng.random() < 0.5:
            ok, new = try_op(res, "aligned", "row-rc", lambda: r.rc())
            op, d = "row-rc", {"op": "row-rc"}
        else:
            x = rng.randint(0, L - 1)
            y = rng.randint(x + 1, L)
            ok, new = try_op(res, "aligned", "row-slice", lambda: r[x:y])
            op, d = "row-slice", {"op": "row-slice", "slice": [x, y]}
        if not ok:
            yield None, op, d
            continue
        r = new
        yield Item("Aligned", r, aligned_components(mt_label(a) in NUCLEIC)), op, d


@family("seq-old")
def _f_seq_old(res, rng, deep):
    return gen_seq(res, rng, "old", rng.randint(1, 6 if deep else 4))


@family("seq-new")
def _f_seq_new(res, rng, deep):
    return gen_seq(res, rng, "new", rng.randint(1, 6 if deep else 4))


@family("seqview")
def _f_seqview(res, rng, deep):
    return gen_seqview(res, rng, rng.randint(1, 4))


@family("seqsdata")
def _f_seqsdata(res, rng, deep):
    return gen_seqsdata(res, rng, rng.randint(1, 3))


@family("coll-old")
def _f_coll_old(res, rng, deep):
    return gen_coll(res, rng, "old", rng.randint(1, 5 if deep else 3))


@family("coll-new")
def _f_coll_new(res, rng, deep):
    return gen_coll(res, rng, "new", rng.randint(1, 5 if deep else 3))


@family("aln")
def _f_aln(res, rng, deep):
    return gen_aln(res, rng, False, rng.randint(1, 5 if deep else 3))


@family("aln-array")
def _f_aln_array(res, rng, deep):
    return gen_aln(res, rng, True, rng.randint(1, 5 if deep else 3))


@family("aligned")
def _f_aligned(res, rng, deep):
    return gen_aligned(res, rng, rng.randint(1, 4))



# ---------------------------------------------------------------------------
# trees


def tree_names(t):
    return [n.name for n in t.get_edge_vector(include_root=True)]


def tree_name_class(t):
    """None when every node has a unique plain name, else the C09 name class the tree falls in"""
    names = tree_names(t)
    if any(n is None or n == "" for n in names):
        return "unnamed-node"
    if len(set(names)) != len(names):
        return "duplicate-name"
    for n in names:
        n = str(n)
        # the C09 classes: newick metacharacters, quotes, leading / trailing blanks (other white space likewise)
        if any(ch in n for ch in "()[],:;'\"") or n != n.strip() or any(ch.isspace() and ch != " " for ch in n) or "  " in n:
            return "needs-escaping"
    return None


def tree_components(phylo):
    comps = [
        ("tip-names", lambda t: t.get_tip_names()),
        ("node-names", tree_names),
        ("newick-names", lambda t: t.get_newick(with_node_names=True)),
        ("children", lambda t: {n.name: [c.name for c in n.children] for n in t.get_edge_vector(include_root=True)}),
    ]
    if phylo:
        comps += [
            ("newick-lengths", lambda t: t.get_newick(with_distances=True, with_node_names=True)),
            # G: a missing 'length' entry and length=None are the same observation (node.length is None)
            ("edge-params", lambda t: {n.name: {k: v for k, v in n.params.items() if v is not None} for n in t.get_edge_vector(include_root=True)}),
            ("lengths", lambda t: {n.name: n.length for n in t.get_edge_vector(include_root=True)}),
            ("distances", lambda t: t.get_distances() if all(n.length is not None for n in t.get_edge_vector(include_root=False)) else "no-lengths"),
        ]
    return comps


def tree_item(t):
    phylo = type(t).__name__ == "PhyloNode"
    acc = {}
    if not phylo:
        # documented: deserialise_tree "returns a cogent3 PhyloNode instance"
        acc = {"json": {"cogent3.core.tree.PhyloNode"}, "rich": {"cogent3.core.tree.PhyloNode"}}
    st = lambda t: "root-named-root" if t.name == "root" else "root-has-other-name"  # noqa: E731
    return Item(type(t).__name__, t, tree_components(phylo), accept_class=acc, state=st, mech="tree")


def rand_tree_newick(rng, ntips, lengths):
    tips = [f"t{i}" for i in range(ntips)]
    style = pick(rng, ["plain", "species", "blank", "species", "blank-internal", "punct"])
    if style != "plain":
        tips = rng.sample(["Human", "Mouse", "Rat", "Dog", "Cow", "Pig", "Cat", "Fox", "Bat", "Owl"], ntips)
    if style in ("blank", "blank-internal"):
        # names with an internal blank are legal (quoted in newick) and are not one of the C09 name classes
        pool = ["Pan troglodytes", "Homo sapiens", "Mus musculus", "Bos taurus", "Sus scrofa dom", "Canis l familiaris"]
        for i, k in enumerate(rng.sample(range(ntips), rng.randint(1, min(ntips, len(pool))))):
            tips[k] = pool[i]
    elif style == "punct":
        pool = ["sp_1", "a.b", "x-y", "g|1", "n=2", "A_b_c"]
        for i, k in enumerate(rng.sample(range(ntips), rng.randint(1, min(ntips, len(pool))))):
            tips[k] = pool[i]

    def q(name):
        return f"'{name}'" if (" " in name or "_" in name) else name

    blank_internal = style == "blank-internal"
    nodes = [(q(t), True) for t in tips]
    rng.shuffle(nodes)
    cnt = 0

    def ln():
        if lengths == "none":
            return ""
        if lengths == "some" and rng.random() < 0.4:
            return ""
        return ":" + repr(rng.choice([0.0, 0.5, 1.0, round(rng.uniform(0.001, 3), 4), 1e-7, 12.25]))

    k_root = rng.choice([2, 3, 3]) if ntips >= 3 else ntips
    while len(nodes) > k_root:
        k = 3 if (rng.random() < 0.2 and len(nodes) > k_root + 1) else 2
        sel = [nodes.pop(rng.randrange(len(nodes))) for _ in range(k)]
        cnt += 1
        iname = f"'clade {cnt}'" if blank_internal and cnt % 2 else f"n{cnt}"
        nodes.append(("(" + ",".join(s + ln() for s, _ in sel) + f"){iname}", False))
    return "(" + ",".join(s + ln() for s, _ in nodes) + ")root;"


def gen_tree(res, rng, phylo, depth):
    from cogent3 import make_tree
    from cogent3.core.tree import TreeNode
    from cogent3.parse.tree import DndParser

    ntips = rng.randint(2, 9)
    lengths = rng.choice(["all", "all", "some", "none"]) if phylo else "none"
    nwk = rand_tree_newick(rng, ntips, lengths)
    if phylo:
        ok, t = try_op(res, "tree", "make_tree", lambda: make_tree(nwk))
    else:

        def _mk_treenode():
            tn = DndParser(nwk, constructor=TreeNode)
            for node in tn.get_edge_vector(include_root=True):  # DndParser keeps the newick quotes in the name
                if node.name and len(node.name) > 1 and node.name[0] == node.name[-1] == "'":
                    node.name = node.name[1:-1]
            return tn

        ok, t = try_op(res, "tree", "make_tree", _mk_treenode)
    if not ok:
        return
    if tree_name_class(t):
        res.count("tree-skipped-name-class:" + tree_name_class(t))
        return
    yield tree_item(t), "fresh", {"newick": nwk, "class": type(t).__name__}
    for _ in range(depth):
        tips = t.get_tip_names()
        internal = [n.name for n in t.get_edge_vector(include_root=False) if n.children]
        ops = ["rooted_with_tip", "unrooted", "get_sub_tree", "sorted", "deepcopy", "rename", "reassign_names"]
        if internal:
            ops += ["rooted_at", "rooted_at"]
        if phylo:
            ops += ["scale", "extra-param", "set-length", "bifurcating", "root_at_midpoint", "prune-after-remove"]
        op = rng.choice(ops)
        d = {"op": op}
        if op == "rooted_at":
            nm = rng.choice(internal)
            d["node"] = nm
            ok, new = try_op(res, "tree", op, lambda: t.rooted_at(nm))
        elif op == "rooted_with_tip":
            nm = rng.choice(tips)
            d["tip"] = nm
            ok, new = try_op(res, "tree", op, lambda: t.rooted_with_tip(nm))
        elif op == "unrooted":
            ok, new = try_op(res, "tree", op, lambda: t.unrooted())
        elif op == "get_sub_tree":
            if len(tips) < 3:
                yield None, op, {**d, "skipped": True}
                continue
            k = rng.sample(tips, rng.randint(2, len(tips) - 1))
            d["tips"] = k
            ok, new = try_op(res, "tree", op, lambda: t.get_sub_tree(k))
        elif op == "sorted":
            ok, new = try_op(res, "tree", op, lambda: t.sorted())
        elif op == "deepcopy":
            ok, new = try_op(res, "tree", op, lambda: t.deepcopy())
        elif op == "reassign_names":
            cur = [n for n in tree_names(t) if n != t.name]
            k = rng.sample(cur, rng.randint(1, min(3, len(cur))))
            mapping = {nm: rng.choice(["Gorilla gorilla", "new name", "Felis catus", "renamed_tip", "node x"]) + f" {i}" for i, nm in enumerate(k)}
            d["mapping"] = mapping

            def _rn(mapping=mapping):
                c = t.deepcopy()
                c.reassign_names(mapping)
                return c

            ok, new = try_op(res, "tree", op, _rn)
        elif op == "rename":
            nm = rng.choice(tree_names(t))
            newname = rng.choice(["x", "x y ", "sp nov "]).strip() + str(rng.randint(100, 999))
            d.update(node=nm, to=newname)

            def _ren():
                t.get_node_matching_name(nm).name = newname
                return t

            ok, new = try_op(res, "tree", op, _ren)
        elif op == "scale":
            f = rng.choice([0.5, 3.0])
            d["factor"] = f

            def _scale():
                c = t.deepcopy()
                for n in c.get_edge_vector(include_root=False):
                    if n.length is not None:
                        n.length = n.length * f
                return c

            ok, new = try_op(res, "tree", op, _scale)
        elif op == "extra-param":
            nm = rng.choice(tree_names(t))
            val = rng.choice([1, 2.5, "label", [1, 2]])
            d.update(node=nm, value=val)

            def _xp():
                t.get_node_matching_name(nm).params["other"] = val
                return t

            ok, new = try_op(res, "tree", op, _xp)
        elif op == "set-length":
            nm = rng.choice([n for n in tree_names(t) if n != t.name] or tips)
            val = rng.choice([None, 0.0, 0.125, 7.5])
            d.update(node=nm, value=val)

            def _sl():
                t.get_node_matching_name(nm).length = val
                return t

            ok, new = try_op(res, "tree", op, _sl)
        elif op == "bifurcating":
            ok, new = try_op(res, "tree", op, lambda: t.bifurcating())
        elif op == "root_at_midpoint":
            ok, new = try_op(res, "tree", op, lambda: t.root_at_midpoint())
        elif op == "prune-after-remove":
            if len(tips) < 4:
                yield None, op, {**d, "skipped": True}
                continue
            nm = rng.choice(tips)
            d["tip"] = nm

            def _prune():
                c = t.deepcopy()
                node = c.get_node_matching_name(nm)
                node.parent.remove(node)
                c.prune()
                return c

            ok, new = try_op(res, "tree", op, _prune)
        else:
            raise AssertionError(op)
        if not ok or new is None:
            yield None, op, {**d, "raised": True}
            continue
        t = new
        nc = tree_name_class(t)
        if nc:
            # these name classes are recorded under C09; not re-reported here
            res.count("tree-skipped-name-class:" + nc)
            yield None, op, {**d, "name-class": nc}
            break
        yield tree_item(t), op, d


# ---------------------------------------------------------------------------
# tables


def table_components():
    return [
        ("header", lambda t: list(t.header)),
        ("shape", lambda t: list(t.shape)),
        ("to_list", lambda t: t.to_list() if t.shape[1] != 1 else [[v] for v in t.to_list()]),
        ("index_name", lambda t: t.index_name),
        ("title", lambda t: t.title),
        ("legend", lambda t: t.legend),
        ("column-dtype-kinds", lambda t: {c: t.columns[c].dtype.kind for c in t.header}),
        ("rendered", lambda t: str(t)),
        ("to_dict", lambda t: t.to_dict()),
    ]


def rand_table(rng, tag=""):
    from cogent3 import make_table

    ncols = rng.randint(1, 5)
    nrows = rng.choice([0, 1, 2, 3, 5, 8])
    header = [f"{tag}c{i}" for i in range(ncols)]
    if rng.random() < 0.3:
        header[0] = "id"
    if rng.random() < 0.25:  # unusual but legal column names
        for j, nm in zip(range(1, ncols), [f"{tag}col 1", f"{tag}2", f"{tag}a.b", f"{tag}x_y"]):
            header[j] = nm
    data = {}
    kinds = []
    for j, h in enumerate(header):
        kind = rng.choice(["int", "float", "str", "bool", "float-nan", "str", "int", "str-numeric", "mixed", "int-big"])
        if j == 0:
            kind = rng.choice(["str-unique", "int-unique", "float-unique", "str-numeric-unique", "int-unique"])
        kinds.append(kind)
        if kind == "int":
            col = [rng.randint(-5, 50) for _ in range(nrows)]
        elif kind == "int-unique":
            col = rng.sample(range(100), nrows)
        elif kind == "str-unique":
            col = [f"r{i}" for i in rng.sample(range(100), nrows)]
        elif kind == "float-unique":
            col = [x / 4 for x in rng.sample(range(-20, 80), nrows)]
        elif kind == "str-numeric-unique":  # strings that look like numbers must stay strings
            col = [str(i) if i % 2 else f"0{i}" for i in rng.sample(range(100), nrows)]
        elif kind == "str-numeric":
            col = [rng.choice(["1", "02", "1e3", "-4.5", "nan", "True", "None"]) for _ in range(nrows)]
        elif kind == "mixed":
            col = [rng.choice([1, "a", None, 2.5, "3"]) for _ in range(nrows)]
        elif kind == "int-big":
            col = [rng.choice([2**40, -(2**33), 0, 255]) for _ in range(nrows)]
        elif kind == "float":
            col = [rng.choice([0.0, 1.5, 1e-9, 123456.789, -2.25, rng.uniform(-1, 1)]) for _ in range(nrows)]
        elif kind == "float-nan":
            col = [rng.choice([float("nan"), 1.5, float("inf"), -0.5]) for _ in range(nrows)]
        elif kind == "bool":
            col = [rng.random() < 0.5 for _ in range(nrows)]
        else:
            col = [rng.choice(["a", "bb", "c c", "", "x,y", "Z"]) for _ in range(nrows)]
        data[h] = col
    kw = {}
    if rng.random() < 0.5:
        kw["title"] = rng.choice(["A title", "t"])
    if rng.random() < 0.4:
        kw["legend"] = "some legend"
    if rng.random() < 0.4:
        kw["index_name"] = header[0]
    if rng.random() < 0.3:
        kw["digits"] = rng.choice([1, 6])
    if rng.random() < 0.3:
        kw["space"] = rng.choice([2, 6])
    if rng.random() < 0.2:
        kw["max_width"] = 30
    if rng.random() < 0.2:
        kw["missing_data"] = "NA"
    fl = [h for h, k in zip(header, kinds) if k.startswith("float")]
    if fl and rng.random() < 0.3:
        kw["column_templates"] = {fl[0]: "%.1e"}
    t = make_table(header=header, data=data, **kw)
    return t, {"header": header, "data": data, **kw}


def gen_table(res, rng, depth):
    ok, tt = try_op(res, "table", "make_table", lambda: rand_table(rng))
    if not ok:
        return
    t, d0 = tt
    flags = {"fmt": False}
    st = lambda t: "after-format_column" if flags["fmt"] else "plain"  # noqa: E731
    item = lambda t: Item("Table", t, table_components(), state=st)  # noqa: E731
    yield item(t), "fresh", d0
    for _ in range(depth):
        hdr = list(t.header)
        nrows = t.shape[0]
        ops = ["sorted", "sorted-reverse", "filtered", "get_columns", "with_new_column", "with_new_header", "appended", "joined", "transposed", "row-slice", "set-index", "set-title", "column-assign", "format_column", "deepcopy", "distinct"]
        op = rng.choice(ops)
        d = {"op": op}
        if not hdr:
            break
        if op in ("sorted", "sorted-reverse"):
            c = rng.choice(hdr)
            d["column"] = c
            ok, new = try_op(res, "table", op, (lambda: t.sorted(columns=c)) if op == "sorted" else (lambda: t.sorted(reverse=c)))
        elif op == "filtered":
            c = rng.choice(hdr)
            keep = set(rng.sample(range(max(nrows, 1)), rng.randint(0, max(nrows, 1))))
            vals = t.columns[c].tolist()
            keepvals = [vals[i] for i in keep if i < len(vals)]
            d.update(column=c, keep_values=keepvals)
            ok, new = try_op(res, "table", op, lambda: t.filtered(lambda v: v in keepvals, columns=c))
        elif op == "get_columns":
            k = rng.sample(hdr, rng.randint(1, len(hdr)))
            if t.index_name and t.index_name not in k:
                k = [t.index_name] + k
            d["columns"] = k
            ok, new = try_op(res, "table", op, lambda: t.get_columns(k))
        elif op == "with_new_column":
            c = rng.choice(hdr)
            nm = f"n{len(hdr)}"
            d.update(source=c, new=nm)
            ok, new = try_op(res, "table", op, lambda: t.with_new_column(nm, lambda v: str(v) + "!", columns=c))
        elif op == "with_new_header":
            # renaming the index column leaves index_name pointing at a column that no longer exists (a defect of
            # with_new_header, not of serialisation): the index column is not renamed here
            c = rng.choice([h for h in hdr if h != t.index_name] or hdr)
            if c == t.index_name:
                yield None, op, {**d, "skipped": True}
                continue
            d.update(old=c, new=c + "X")
            ok, new = try_op(res, "table", op, lambda: t.with_new_header(c, c + "X"))
        elif op == "appended":
            if t.index_name:  # appending a copy would repeat the index values (an invalid index; C20's business)
                yield None, op, {**d, "skipped": True}
                continue
            d["with"] = "itself"
            ok, new = try_op(res, "table", op, lambda: t.appended(None, t))
        elif op == "joined":
            ot, od = rand_table(rng, tag="o")
            oh = list(ot.header)
            key = hdr[0]
            # give the other table a key column named like ours
            ok, new = try_op(res, "table", op, lambda: t.joined(ot.with_new_header(oh[0], key), columns_self=key, columns_other=key))
            d["other"] = od
        elif op == "transposed":
            if t.index_name is None or nrows == 0:
                yield None, op, {**d, "skipped": True}
                continue
            ok, new = try_op(res, "table", op, lambda: t.transposed("new", select_as_header=t.index_name))
        elif op == "row-slice":
            if nrows == 0:
                yield None, op, {**d, "skipped": True}
                continue
            a = rng.randint(0, nrows - 1)
            b = rng.randint(a, nrows)
            d["rows"] = [a, b]
            ok, new = try_op(res, "table", op, lambda: t[a:b])
        elif op == "set-index":
            c = hdr[0]
            d["column"] = c

            def _si():
                t.index_name = c
                return t

            ok, new = try_op(res, "table", op, _si)
        elif op == "set-title":

            def _st():
                t.title = "changed title"
                t.legend = "changed legend"
                return t

            ok, new = try_op(res, "table", op, _st)
        elif op == "column-assign":
            cands = [h for h in hdr if h != t.index_name]  # the index column must stay unique
            if not cands:
                yield None, op, {**d, "skipped": True}
                continue
            c = rng.choice(cands)
            vals = [rng.choice([1.5, 2.5, float("nan")]) for _ in range(nrows)]
            d.update(column=c, values=vals)

            def _ca():
                t.columns[c] = vals
                return t

            ok, new = try_op(res, "table", op, _ca)
        elif op == "format_column":
            c = rng.choice(hdr)
            d.update(column=c, format="%s")

            def _fc():
                t.format_column(c, "%s")
                return t

            ok, new = try_op(res, "table", op, _fc)
            flags["fmt"] = flags["fmt"] or ok
        elif op == "deepcopy":
            ok, new = try_op(res, "table", op, lambda: _copy.deepcopy(t))
        elif op == "distinct":
            c = rng.choice(hdr)
            d["column"] = c
            ok, new = try_op(res, "table", op, lambda: t.filtered(lambda v: True, columns=c))
        else:
            raise AssertionError(op)
        if not ok or new is None:
            yield None, op, {**d, "raised": True}
            continue
        t = new
        yield item(t), op, d


# ---------------------------------------------------------------------------
# DictArray / DistanceMatrix


def darr_components():
    return [
        ("array", lambda x: x.array),
        ("shape", lambda x: list(x.array.shape)),
        ("names", lambda x: [list(n) if not isinstance(n, int) else n for n in x.template.names]),
        ("dtype-kind", lambda x: x.array.dtype.kind),
        ("to_dict", lambda x: x.to_dict()),
        ("rendered", lambda x: str(x)),
    ]


def dm_components():
    def cells(x):
        names = list(x.names)
        return {f"{a}|{b}": x[a, b] for a in names for b in names}

    return darr_components() + [
        ("ordered-cells", cells),
        ("dm-names", lambda x: list(x.names)),
        ("dm-to_dict", lambda x: x.to_dict()),
        ("dm-table", lambda x: x.to_table().to_list()),
    ]


def gen_darr(res, rng, depth):
    from cogent3.util.dict_array import DictArrayTemplate

    nd = rng.choice([1, 2, 2, 3])
    dims = []
    for k in range(nd):
        n = rng.randint(1, 4)
        dims.append(
            rng.choice(
                [
                    [f"{'abc'[k]}{i}" for i in range(n)],
                    list("ACGT")[:n],
                    n if rng.random() < 0.15 else [f"k{i}" for i in range(n)],
                    [3, 0, 2, 1][:n],  # integer labels that are not positions
                    ["1", "01", "1.0", "10"][:n],  # look alike, all different
                    ["a b", "a  b"[:3] + "c", "A B", "b a"][:n],
                ]
            )
        )
    shape = [d if isinstance(d, int) else len(d) for d in dims]
    kind = rng.choice(["int", "float", "float-special", "bool"])
    size = int(np.prod(shape))
    if kind == "int":
        arr = np.array([rng.randint(-3, 99) for _ in range(size)]).reshape(shape)
    elif kind == "bool":
        arr = np.array([rng.random() < 0.5 for _ in range(size)]).reshape(shape)
    elif kind == "float":
        arr = np.array([rng.uniform(-2, 2) for _ in range(size)]).reshape(shape)
    else:
        arr = np.array([rng.choice([float("nan"), float("inf"), 0.0, -0.0, 1e-300, 1.5]) for _ in range(size)]).reshape(shape)
    ok, x = try_op(res, "darr", "wrap", lambda: DictArrayTemplate(*dims).wrap(arr))
    if not ok:
        return
    item = lambda x: Item("DictArray", x, darr_components())  # noqa: E731
    yield item(x), "fresh", {"dims": dims, "array": arr.tolist()}
    for _ in range(depth):
        names = x.template.names
        ops = ["index-first", "take-names", "write-cell", "deepcopy"]
        if x.array.ndim == 2:
            ops += ["transpose", "normalize"]
        op = rng.choice(ops)
        d = {"op": op}
        if op == "index-first":
            if x.array.ndim < 2:
                yield None, op, {**d, "skipped": True}
                continue
            k = names[0][rng.randrange(len(names[0]))] if not isinstance(names[0], int) else 0
            d["key"] = k
            ok, new = try_op(res, "darr", op, lambda: x[k])
        elif op == "take-names":
            n0 = names[0]
            if isinstance(n0, int) or len(n0) < 1:
                yield None, op, {**d, "skipped": True}
                continue
            k = rng.sample(list(n0), rng.randint(1, len(n0)))
            d["keys"] = k
            ok, new = try_op(res, "darr", op, lambda: x[k])
        elif op == "write-cell":
            val = rng.choice([7, 0, 1])
            idx = tuple(rng.randrange(n) for n in x.array.shape)
            d.update(index=list(idx), value=val)

            def _wc():
                if not x.array.flags.writeable:
                    raise ValueError("read-only")
                x.array[idx] = val
                return x

            ok, new = try_op(res, "darr", op, _wc)
        elif op == "transpose":
            ok, new = try_op(res, "darr", op, lambda: x.T)
        elif op == "normalize":
            ok, new = try_op(res, "darr", op, lambda: x.to_normalized(by_row=True))
        elif op == "deepcopy":
            ok, new = try_op(res, "darr", op, lambda: _copy.deepcopy(x))
        else:
            raise AssertionError(op)
        if not ok or new is None or not hasattr(new, "template"):
            yield None, op, {**d, "raised-or-scalar": True}
            continue
        x = new
        yield item(x), op, d


def gen_dm(res, rng, depth):
    from cogent3.evolve.fast_distance import DistanceMatrix

    n = rng.randint(2, 6)
    names = rng.sample(["Human", "Mouse", "Rat", "Dog", "t1", "t2", "seq_x"], n)
    dists = {}
    for i in range(n):
        for j in range(i + 1, n):
            v = rng.choice([0.0, 0.1, 1.5, round(rng.uniform(0, 3), 5), float("nan") if rng.random() < 0.3 else 0.25])
            dists[(names[i], names[j])] = v
            r = rng.random()
            if r < 0.5:
                dists[(names[j], names[i])] = v
            elif r < 0.8 or getattr(rng, "slot", 1) % 2 == 0:
                # a distance matrix is a plain names x names array: the two directions may legally differ
                dists[(names[j], names[i])] = round(v + 0.5, 5) if v == v else 0.25
    kw = {}
    if rng.random() < 0.3:
        kw["invalid"] = rng.choice([None, 9.0])
    ok, x = try_op(res, "dm", "make", lambda: DistanceMatrix(dists, **kw))
    if not ok:
        return
    item = lambda x: Item("DistanceMatrix", x, dm_components())  # noqa: E731
    yield item(x), "fresh", {"dists": {keystr(k): v for k, v in dists.items()}, **kw}
    for _ in range(depth):
        cur = list(x.names)
        op = rng.choice(["take_dists", "take_dists-negate", "drop_invalid", "write-cell", "write-cell-one-direction", "write-cell-one-direction", "deepcopy"])
        d = {"op": op}
        if op == "write-cell-one-direction":
            a, b = rng.sample(cur, 2)
            val = rng.choice([0.75, 0.0, 2.125, float("nan")])
            d.update(cell=[a, b], value=val)

            def _wc1(a=a, b=b, val=val):
                x[a, b] = val
                return x

            ok, new = try_op(res, "dm", op, _wc1)
        elif op.startswith("take_dists"):
            if len(cur) < 3:
                yield None, op, {**d, "skipped": True}
                continue
            k = rng.sample(cur, rng.randint(2, len(cur) - 1))
            d["names"] = k
            ok, new = try_op(res, "dm", op, lambda: x.take_dists(k, negate=op.endswith("negate")))
        elif op == "drop_invalid":
            ok, new = try_op(res, "dm", op, lambda: x.drop_invalid())
        elif op == "write-cell":
            a, b = rng.sample(cur, 2)
            val = rng.choice([float("nan"), 0.75, 0.0])
            d.update(pair=[a, b], value=val)

            def _wc():
                x[a, b] = val
                x[b, a] = val
                return x

            ok, new = try_op(res, "dm", op, _wc)
        else:
            ok, new = try_op(res, "dm", op, lambda: _copy.deepcopy(x))
        if not ok or new is None:
            yield None, op, {**d, "raised-or-none": True}
            continue
        x = new
        if len(x.names) < 2:
            break
        yield item(x), op, d


@family("tree")
def _f_tree(res, rng, deep):
    return gen_tree(res, rng, True, rng.randint(1, 5 if deep else 3))


@family("tree-treenode")
def _f_treenode(res, rng, deep):
    return gen_tree(res, rng, False, rng.randint(1, 3))


@family("table")
def _f_table(res, rng, deep):
    return gen_table(res, rng, rng.randint(1, 6 if deep else 4))


@family("dictarray")
def _f_darr(res, rng, deep):
    return gen_darr(res, rng, rng.randint(1, 3))


@family("distancematrix")
def _f_dm(res, rng, deep):
    return gen_dm(res, rng, rng.randint(1, 3))


# ---------------------------------------------------------------------------
# alphabets and molecular types

OLD_MOLTYPES = ["dna", "rna", "protein", "protein_with_stop", "text", "bytes", "ab"]
NEW_MOLTYPES = ["dna", "rna", "protein", "protein_with_stop", "text", "bytes"]


def old_alpha_components():
    def probe(a):
        motifs = list(a)[:6]
        return [a.index(m) for m in motifs]

    return [
        ("motifs", lambda a: [m if isinstance(m, str) else list(m) for m in a]),
        ("length", lambda a: len(a)),
        ("gap", lambda a: a.gap),
        ("moltype", lambda a: a.moltype.label if a.moltype is not None else None),
        ("motif-length", lambda a: a.get_motif_len()),
        ("index-of-motifs", probe),
        ("to_indices", lambda a: a.to_indices(list(a)[:5])),
        ("equals-original-type", lambda a: type(a).__name__),
    ]


def gen_alpha_old(res, rng, depth):
    from cogent3 import get_code, get_moltype

    lab = rng.choice(OLD_MOLTYPES)
    mt = get_moltype(lab)
    which = pick(rng, ["base", "degen", "gapped", "degen_gapped", "codon"])
    slot = getattr(rng, "slot", 0) or 0
    if which == "base" and slot % 2 == 0:
        lab = ["dna", "rna", "protein"][(slot // 10) % 3]  # guarantees word alphabets / JointEnumerations below
        mt = get_moltype(lab)
    d0 = {"moltype": lab, "alphabet": which}
    if which == "codon":
        gc = rng.choice([1, 2, 4, 11])
        inc = rng.random() < 0.3
        d0.update(moltype="dna", genetic_code=gc, include_stop=inc)
        ok, a = try_op(res, "alpha", "codon", lambda: get_code(gc).get_alphabet(include_stop=inc))
    elif which == "base":
        ok, a = try_op(res, "alpha", "get", lambda: mt.alphabet)
    else:
        ok, a = try_op(res, "alpha", "get", lambda: getattr(mt.alphabets, which))
    if not ok or a is None:
        return
    item = lambda a: Item(f"old.{type(a).__name__}", a, old_alpha_components())  # noqa: E731
    yield item(a), "fresh", d0
    for _ in range(depth):
        if not hasattr(a, "get_motif_len"):  # JointEnumeration: no alphabet operations
            break
        ops = ["with_gap_motif", "get_subset", "get_subset-excluded"]
        if len(a) <= 25 and a.get_motif_len() == 1:
            ops += ["get_word_alphabet", "get_word_alphabet", "pow", "mul"]
        op = rng.choice(ops)
        if _ == 0 and which == "base" and slot % 2 == 0 and len(a) <= 25:
            op = ["get_word_alphabet", "pow", "mul"][(slot // 2) % 3]
        d = {"op": op}
        if op == "with_gap_motif":
            ok, new = try_op(res, "alpha", op, lambda: a.with_gap_motif())
        elif op.startswith("get_subset"):
            k = rng.sample(list(a), rng.randint(1, max(1, min(len(a) - 1, 5))))
            d["motifs"] = [m if isinstance(m, str) else list(m) for m in k]
            ok, new = try_op(res, "alpha", op, lambda: a.get_subset(k, excluded=op.endswith("excluded")))
        elif op == "get_word_alphabet":
            k = rng.choice([2, 3]) if len(a) <= 6 else 2
            d["k"] = k
            ok, new = try_op(res, "alpha", op, lambda: a.get_word_alphabet(k))
        elif op == "pow":
            d["k"] = 2
            ok, new = try_op(res, "alpha", op, lambda: a**2)
        elif op == "mul":
            ok, new = try_op(res, "alpha", op, lambda: a * a)
        else:
            raise AssertionError(op)
        if not ok or new is None or len(new) == 0:
            yield None, op, {**d, "raised": True}
            continue
        a = new
        yield item(a), op, d


def moltype_old_components():
    def conv(m):
        s = "".join(list(m.alphabet)[:4]) if all(isinstance(x, str) and len(x) == 1 for x in m.alphabet) else ""
        sq = m.make_seq(s, name="q")
        return [type(sq).__name__, str(sq), sq.moltype.label]

    return [
        ("label", lambda m: m.label),
        ("alphabet", lambda m: list(m.alphabet)),
        ("degen-gapped-alphabet", lambda m: list(m.alphabets.degen_gapped)),
        ("gaps", lambda m: sorted(m.gaps)),
        ("ambiguities", lambda m: {k: sorted(v) for k, v in (m.ambiguities or {}).items()}),
        ("complements", lambda m: dict(m.complements or {})),
        ("make_seq", conv),
        # cogent3 has one instance per moltype and compares them with == / is (MolType defines no __eq__)
        ("equals-registered-moltype", lambda m: bool(__import__("cogent3").get_moltype(m.label) == m)),
    ]


def gen_moltype_old(res, rng, depth):
    from cogent3 import get_moltype, make_seq

    lab = pick(rng, OLD_MOLTYPES)
    via = rng.choice(["get_moltype", "from-sequence", "from-alignment", "from-alphabet"])
    if via == "get_moltype" or lab in ("ab",):
        m = get_moltype(lab)
        via = "get_moltype"
    elif via == "from-sequence":
        m = make_seq(rand_seq_str(rng, lab, 5), moltype=lab)[1:3].moltype
    elif via == "from-alignment":
        from cogent3 import make_unaligned_seqs

        m = make_unaligned_seqs({"a": rand_seq_str(rng, lab, 5)}, moltype=lab).moltype
    else:
        m = get_moltype(lab).alphabet.moltype
    yield Item("old.MolType", m, moltype_old_components()), "fresh", {"moltype": lab}
    # a moltype reached through an object with a history is the same object; there is no mutating API
    yield Item("old.MolType", m, moltype_old_components()), via, {"via": via}


def new_alpha_components():
    def idx(a):
        motifs = list(a)[:5]
        if not motifs:
            return []
        if isinstance(motifs[0], str) and len(motifs[0]) == 1:
            return a.to_indices("".join(motifs))
        return a.to_indices("".join(motifs))

    return [
        ("motifs", lambda a: list(a)),
        ("length", lambda a: len(a)),
        ("gap_char", lambda a: a.gap_char),
        ("gap_index", lambda a: a.gap_index),
        ("missing_char", lambda a: getattr(a, "missing_char", "n/a")),
        ("missing_index", lambda a: getattr(a, "missing_index", "n/a")),
        ("num_canonical", lambda a: a.num_canonical),
        ("motif_len", lambda a: a.motif_len),
        ("to_indices", idx),
        ("k", lambda a: getattr(a, "k", "n/a")),
        ("monomers", lambda a: list(a.monomers) if hasattr(a, "monomers") else "n/a"),
        ("from_indices", lambda a: a.from_indices(np.arange(min(3, len(a)), dtype=np.uint8)) if hasattr(a, "from_indices") else "n/a"),
    ]


def gen_alpha_new(res, rng, depth):
    from cogent3.core import new_genetic_code, new_moltype

    lab = rng.choice(NEW_MOLTYPES)
    which = pick(rng, ["alphabet", "gapped_alphabet", "degen_alphabet", "degen_gapped_alphabet", "codon"])
    slot = getattr(rng, "slot", 0) or 0
    if which == "alphabet":
        lab = ["dna", "rna", "protein"][(slot // 5) % 3]  # small alphabets: k-mer alphabets below
    mt = new_moltype.get_moltype(lab)
    d0 = {"moltype": lab, "alphabet": which}
    if which == "codon":
        gc = rng.choice([1, 2, 4, 11])
        kw = {"include_gap": rng.random() < 0.5}
        if rng.random() < 0.5:
            kw["include_stop"] = rng.random() < 0.5
        d0.update(moltype="dna", genetic_code=gc, **kw)
        ok, a = try_op(res, "alpha-new", "codon", lambda: new_genetic_code.get_code(gc).get_alphabet(**kw))
    else:
        ok, a = try_op(res, "alpha-new", "get", lambda: getattr(mt, which))
    if not ok or a is None:
        return
    item = lambda a: Item(f"new.{type(a).__name__}", a, new_alpha_components())  # noqa: E731
    yield item(a), "fresh", d0
    for _ in range(depth):
        ops = ["with_gap_motif"]
        if type(a).__name__ == "CharAlphabet" and len(a) <= 30:
            ops += ["get_kmer_alphabet", "get_kmer_alphabet"]
        op = rng.choice(ops)
        if _ == 0 and which == "alphabet":
            op = "get_kmer_alphabet"
        d = {"op": op}
        if op == "with_gap_motif":
            if not hasattr(a, "with_gap_motif"):
                yield None, op, {**d, "skipped": True}
                continue
            ok, new = try_op(res, "alpha-new", op, lambda: a.with_gap_motif())
        else:
            k = rng.choice([1, 2, 3]) if len(a) <= 6 else rng.choice([1, 2])
            ig = rng.random() < 0.5
            d.update(k=k, include_gap=ig)
            ok, new = try_op(res, "alpha-new", op, lambda: a.get_kmer_alphabet(k, include_gap=ig))
        if not ok or new is None:
            yield None, op, {**d, "raised": True}
            continue
        a = new
        yield item(a), op, d


def moltype_new_components():
    return [
        ("name", lambda m: m.name),
        ("alphabet", lambda m: list(m.alphabet)),
        ("degen-gapped-alphabet", lambda m: list(m.degen_gapped_alphabet) if m.degen_gapped_alphabet else None),
        ("gaps", lambda m: sorted(m.gaps)),
        ("ambiguities", lambda m: {k: sorted(v) for k, v in (m.ambiguities or {}).items()}),
        ("complements", lambda m: dict(m.complements or {})),
        ("make_seq", lambda m: [type(m.make_seq(seq="".join(list(m.alphabet)[:3]), name="q")).__name__, str(m.make_seq(seq="".join(list(m.alphabet)[:3]), name="q"))]),
        ("equals-registered-moltype", lambda m: bool(__import__("cogent3.core.new_moltype", fromlist=["x"]).get_moltype(m.name) == m)),
    ]


def gen_moltype_new(res, rng, depth):
    from cogent3 import make_seq
    from cogent3.core import new_moltype

    lab = pick(rng, NEW_MOLTYPES)
    m = new_moltype.get_moltype(lab)
    # no to_json / to_rich_dict on the new MolType: pickle is its only channel
    yield Item("new.MolType", m, moltype_new_components(), channels=("pickle",)), "fresh", {"moltype": lab}
    s = make_seq(rand_seq_str(rng, lab, 6), moltype=lab, new_type=True, name="x")[1:4]
    yield Item("new.MolType", s.moltype, moltype_new_components(), channels=("pickle",)), "from-sequence-view", {"via": "sequence slice"}


# ---------------------------------------------------------------------------
# IndelMap / FeatureMap


def indelmap_components():
    def render(m):
        n = int(m.parent_length)
        s = "".join("ACGT"[i % 4] for i in range(n))
        out = []
        for sp in m.spans:
            out.append(("?" if getattr(sp, "terminal", False) else "-") * int(sp.length) if sp.lost else s[sp.start : sp.end])
        return "".join(out)

    return [
        ("rendered", render),
        ("map", map_obs),
        ("termini_unknown", lambda m: bool(m.termini_unknown)),
        ("gap_pos", lambda m: m.gap_pos),
        ("cum_gap_lengths", lambda m: m.cum_gap_lengths),
        ("coordinates", lambda m: m.get_coordinates()),
        ("gap-coordinates", lambda m: m.get_gap_coordinates()),
        ("num_gaps", lambda m: m.num_gaps),
        ("inner-slice", lambda m: map_obs(m[1:-1]) if len(m) > 2 else "short"),
        ("seq-index", lambda m: [m.get_seq_index(i) for i in range(len(m))]),
    ]


def gen_indelmap(res, rng, depth):
    from cogent3 import make_seq

    L = rng.randint(1, 30)
    g = []
    while len(g) < L:
        run = rng.choice([1, 1, 2, 3, 6])
        g += (["-"] if rng.random() < 0.4 else ["A"]) * run
    g = "".join(g[:L])
    layout = pick(rng, ["random", "terminal-gaps", "random", "all-gap", "no-terminal-gap", "leading-gap-only"])
    if layout == "terminal-gaps":
        g = "-" * rng.randint(1, 3) + g + "-" * rng.randint(1, 3)
    elif layout == "all-gap":
        g = "-" * len(g)
    elif layout == "no-terminal-gap":
        g = "A" + g + "C"
    elif layout == "leading-gap-only":
        g = "--" + g + "A"
    ok, ms = try_op(res, "imap", "parse_out_gaps", lambda: make_seq(g, moltype="dna").parse_out_gaps())
    if not ok:
        return
    m = ms[0]
    item = lambda m: Item("IndelMap", m, indelmap_components(), state=lambda m: "termini-unknown" if m.termini_unknown else "termini-known")  # noqa: E731
    yield item(m), "fresh", {"gapped": g, "layout": layout}
    if getattr(rng, "slot", 1) % 2 == 0:
        # the state IndelMap(termini_unknown=True) of Alignment.with_modified_termini(): terminal gaps are '?'
        from cogent3.core.location import IndelMap

        ok, m2 = try_op(
            res, "imap", "ctor-termini_unknown",
            lambda: IndelMap(gap_pos=m.gap_pos.copy(), cum_gap_lengths=m.cum_gap_lengths.copy(), parent_length=m.parent_length, termini_unknown=True),
        )  # fmt: skip
        if ok:
            m = m2
            yield item(m), "ctor-termini_unknown", {"op": "IndelMap(..., termini_unknown=True)"}
    for _ in range(depth):
        n = len(m)
        op = rng.choice(["slice", "slice", "nucleic_reversed", "mul", "joined_segments", "add", "with_termini_unknown", "with_termini_unknown", "deepcopy"])
        d = {"op": op}
        if op == "slice":
            if n == 0:
                break
            a = rng.randint(0, n - 1)
            b = rng.randint(a, n)
            d["slice"] = [a, b]
            ok, new = try_op(res, "imap", op, lambda: m[a:b])
        elif op == "nucleic_reversed":
            ok, new = try_op(res, "imap", op, lambda: m.nucleic_reversed())
        elif op == "mul":
            ok, new = try_op(res, "imap", op, lambda: m * 3)
        elif op == "joined_segments":
            if n < 4:
                yield None, op, {**d, "skipped": True}
                continue
            cuts = sorted(rng.sample(range(n + 1), 4))
            d["segments"] = [[cuts[0], cuts[1]], [cuts[2], cuts[3]]]
            ok, new = try_op(res, "imap", op, lambda: m.joined_segments([(cuts[0], cuts[1]), (cuts[2], cuts[3])]))
        elif op == "add":
            ok, new = try_op(res, "imap", op, lambda: m + m)
        elif op == "with_termini_unknown":
            ok, new = try_op(res, "imap", op, lambda: m.with_termini_unknown())
        else:
            ok, new = try_op(res, "imap", op, lambda: _copy.deepcopy(m))
        if not ok or new is None:
            yield None, op, {**d, "raised": True}
            continue
        if type(new).__name__ != "IndelMap":
            yield None, op, {**d, "other-type": type(new).__name__}
            continue
        m = new
        yield item(m), op, d


def fmap_components():
    def model(m):
        out = []
        for sp in m.spans:
            if sp.lost:
                out += [None] * int(sp.length)
            else:
                r = list(range(sp.start, sp.end))
                out += r[::-1] if sp.reverse else r
        return out

    return [
        ("positions", model),
        ("map", map_obs),
        ("coordinates", lambda m: m.get_coordinates()),
        ("useful", lambda m: bool(m.useful)),
        ("complete", lambda m: bool(m.complete)),
        ("start-end", lambda m: [m.start, m.end] if m.useful else "not-useful"),
        ("reverse", lambda m: bool(m.reverse) if hasattr(m, "reverse") else "n/a"),
        ("covered", lambda m: m.covered().get_coordinates()),
        ("terminal-classes", lambda m: [type(sp).__name__ for sp in m.spans]),
    ]


def gen_fmap(res, rng, depth):
    from cogent3.core.location import FeatureMap, LostSpan, Span

    P = rng.randint(1, 20)
    spans = []
    desc = []
    cuts = sorted(rng.sample(range(P + 1), min(P + 1, 2 * rng.randint(0, 4))))
    for i in range(0, len(cuts) - 1, 2):
        rev = rng.random() < 0.2
        spans.append(Span(cuts[i], cuts[i + 1], reverse=rev))
        desc.append(["S", cuts[i], cuts[i + 1], rev])
        if rng.random() < 0.3:
            k = rng.randint(1, 3)
            spans.append(LostSpan(k))
            desc.append(["L", k])
    if rng.random() < 0.2:
        spans.insert(0, LostSpan(2))
        desc.insert(0, ["L", 2])
    if rng.random() < 0.15 and len(spans) > 1:
        both = list(zip(spans, desc))
        rng.shuffle(both)
        spans = [x for x, _ in both]
        desc = [y for _, y in both]
    via = rng.choice(["ctor", "ctor", "indelmap.to_feature_map"])
    if via == "ctor":
        ok, m = try_op(res, "fmap", "ctor", lambda: FeatureMap(spans=spans, parent_length=P))
        d0 = {"spans": desc, "parent_length": P}
    else:
        from cogent3 import make_seq

        g = "".join(rng.choice("AC-G--") for _ in range(rng.randint(2, 20)))
        if set(g) == {"-"}:
            g = "A" + g
        ok, m = try_op(res, "fmap", via, lambda: make_seq(g, moltype="dna").parse_out_gaps()[0].to_feature_map())
        d0 = {"gapped": g, "via": via}
    if not ok:
        return
    item = lambda m: Item("FeatureMap", m, fmap_components())  # noqa: E731
    yield item(m), "fresh" if via == "ctor" else via, d0
    for _ in range(depth):
        n = len(m)
        op = rng.choice(["slice", "nucleic_reversed", "mul", "covered", "without_gaps", "shadow", "inverse", "with_termini_unknown", "from_locations", "deepcopy", "strict_nucleic_reversed"])
        d = {"op": op}
        if op == "slice":
            if n == 0:
                break
            a = rng.randint(0, n - 1)
            b = rng.randint(a, n)
            d["slice"] = [a, b]
            ok, new = try_op(res, "fmap", op, lambda: m[a:b])
        elif op == "mul":
            ok, new = try_op(res, "fmap", op, lambda: m * 3)
        elif op == "from_locations":
            locs = rand_spans(rng, P, rng.randint(1, 3))
            d["locations"] = locs
            ok, new = try_op(res, "fmap", op, lambda: FeatureMap.from_locations(locations=locs, parent_length=P))
        elif op == "deepcopy":
            ok, new = try_op(res, "fmap", op, lambda: _copy.deepcopy(m))
        else:
            ok, new = try_op(res, "fmap", op, lambda: getattr(m, op)())
        if not ok or new is None or type(new).__name__ != "FeatureMap":
            yield None, op, {**d, "raised-or-other": True}
            continue
        m = new
        yield item(m), op, d


# ---------------------------------------------------------------------------
# annotation dbs

GFF_HEAD = "##gff-version 3\n"


def gen_gff_text(rng, seqids, hi, tag):
    lines = [GFF_HEAD.strip()]
    n = rng.randint(1, 5)
    for i in range(n):
        sid = rng.choice(seqids)
        biotype = rng.choice(["gene", "mRNA", "exon", "CDS"])
        spans = rand_spans(rng, hi, rng.choice([1, 1, 2]))
        strand = rng.choice(["+", "-", "."])
        ident = f"{tag}{i}"
        attrs = f"ID={ident}"
        if rng.random() < 0.4:
            attrs += ";Parent=" + f"{tag}0"
        if rng.random() < 0.3:
            attrs += ";Note=has space"
        for a, b in spans:
            lines.append("\t".join([sid, "src", biotype, str(a + 1), str(b), rng.choice([".", "0.5"]), strand, rng.choice([".", "0"]), attrs]))
    return "\n".join(lines) + "\n"


def gen_gb_text(rng, locus, hi):
    length = hi + rng.randint(0, 10)
    lines = [
        f"LOCUS       {locus:<16} {length} bp    DNA     linear   UNK 01-JAN-2000",
        "DEFINITION  generated record.",
        "FEATURES             Location/Qualifiers",
    ]
    pad = " " * 21
    if rng.random() < 0.6:
        lines += [f"     source          1..{length}", pad + '/organism="Examplus generatus"', pad + '/mol_type="genomic DNA"']
    for i in range(rng.randint(0, 5)):
        biotype = rng.choice(["gene", "CDS", "exon", "misc_feature"])
        spans = rand_spans(rng, hi, rng.choice([1, 1, 2, 3]))
        segs = [f"{a + 1}..{b}" for a, b in spans]
        loc = segs[0] if len(segs) == 1 else "join(" + ",".join(segs) + ")"
        if rng.random() < 0.4:
            loc = f"complement({loc})"
        lines.append("     " + biotype.ljust(16) + loc)
        r = rng.random()
        if r < 0.8:
            key = "gene" if r < 0.5 else "locus_tag"
            lines.append(pad + f'/{key}="{rng.choice(["a", "b", "ab", "g.1", "abc d"])}"')
        if rng.random() < 0.5:
            lines.append(pad + f'/note="{rng.choice(["alpha", "beta gamma", "x=1"])}"')
        if biotype == "CDS":
            lines.append(pad + "/codon_start=1")
            if rng.random() < 0.5:
                lines.append(pad + '/translation="MKV"')
        if rng.random() < 0.1:
            lines.append(pad + "/pseudo")
    seq = "".join(rng.choice("acgt") for _ in range(length))
    lines.append("ORIGIN")
    for i in range(0, length, 60):
        chunk = seq[i : i + 60]
        lines.append(f"{i + 1:>9} " + " ".join(chunk[j : j + 10] for j in range(0, len(chunk), 10)))
    lines.append("//")
    return "\n".join(lines) + "\n"


def _tmpfile(text, suffix):
    fd, path = tempfile.mkstemp(suffix=suffix, dir=os.getcwd())
    with os.fdopen(fd, "w") as out:
        out.write(text)
    return path


def anndb_components():
    def raw(db):
        out = {}
        for tname in db.table_names:
            cur = db.db.execute(f"SELECT * FROM {tname}")
            cols = [c[0] for c in cur.description]
            rows = []
            for row in cur.fetchall():
                rec = {}
                for c, v in zip(cols, row):
                    if v is None:
                        continue
                    rec[c] = norm(v)
                rows.append(rec)
            out[tname] = sorted(rows, key=lambda r: json.dumps(r, sort_keys=True, default=str))
        return out

    def api(db):
        recs = [norm(dict(r)) for r in db.get_records_matching()]
        return sorted(recs, key=lambda r: json.dumps(r, sort_keys=True, default=str))

    def feats(db):
        recs = [norm(dict(r)) for r in db.get_features_matching()]
        return sorted(recs, key=lambda r: json.dumps(r, sort_keys=True, default=str))

    return [
        ("table_names", lambda db: list(db.table_names)),
        ("records", raw),
        ("get_records_matching", api),
        ("get_features_matching", feats),
        ("num_matches", lambda db: db.num_matches()),
        ("length", lambda db: len(db)),
        ("describe", lambda db: db.describe.to_list() if hasattr(db, "describe") else "n/a"),
        ("biotype_counts", lambda db: dict(db.biotype_counts())),
        ("subset-query", lambda db: sorted(json.dumps(norm(dict(r)), sort_keys=True) for r in db.get_records_matching(biotype="gene"))),
    ]


def make_anndb(res, rng, cls, tag):
    """(db, description) built through the class's own loading path"""
    from cogent3.core import annotation_db as A

    seqids = ["s1", "s2", "chr_3"]
    hi = 40
    if cls == "Basic":
        via = rng.choice(["add_feature", "add_records", "empty"])
        if via == "empty":
            return A.BasicAnnotationDb(), {"cls": cls, "via": via}
        if via == "add_feature":
            db, dd = make_db(rng, "Basic", seqids, hi, tag=tag)
            return db, {"cls": cls, "via": via, "records": dd}
        recs = []
        for i in range(rng.randint(1, 4)):
            spans = rand_spans(rng, hi, rng.choice([1, 2]))
            recs.append(dict(seqid=rng.choice(seqids), biotype=rng.choice(["gene", "exon"]), name=f"{tag}r{i}", spans=[list(s) for s in spans], start=spans[0][0], stop=spans[-1][1], strand=rng.choice(["+", "-"])))
        db = A.BasicAnnotationDb(data=_copy.deepcopy(recs))
        return db, {"cls": cls, "via": via, "records": recs}
    if cls == "Gff":
        text = gen_gff_text(rng, seqids, hi, tag)
        path = _tmpfile(text, ".gff")
        try:
            db = A.load_annotations(path=path)
        finally:
            os.unlink(path)
        return db, {"cls": cls, "via": "load_annotations", "gff": text}
    text = gen_gb_text(rng, rng.choice(seqids), hi)
    path = _tmpfile(text, ".gb")
    try:
        db = A.load_annotations(path=path)
    finally:
        os.unlink(path)
    return db, {"cls": cls, "via": "load_annotations", "genbank": text}


def gen_anndb(res, rng, cls, depth):
    ok, dd = try_op(res, "anndb", "make:" + cls, lambda: make_anndb(res, rng, cls, "a"))
    if not ok:
        return
    db, d0 = dd
    item = lambda db: Item(type(db).__name__, db, anndb_components(), mech="annotation_db")  # noqa: E731
    yield item(db), "fresh", d0
    for k in range(depth):
        op = rng.choice(["add_feature", "add_feature", "update", "union", "subset", "deepcopy"])
        d = {"op": op}
        if op == "add_feature":
            spans = rand_spans(rng, 40, rng.choice([1, 2, 3]))
            kw = dict(seqid=rng.choice(["s1", "s2", "new"]), biotype=rng.choice(["gene", "exon", "region"]), name=f"u{k}", spans=spans, strand=rng.choice(["+", "-", None]))
            if rng.random() < 0.3:
                kw["on_alignment"] = True
            if rng.random() < 0.3:
                kw["attributes"] = "k=v;x"
            d.update(kw)

            def _add(kw=kw):
                db.add_feature(**kw)
                return db

            ok, new = try_op(res, "anndb", op, _add)
        elif op in ("update", "union"):
            ocls = rng.choice(["Basic", type(db).__name__.replace("AnnotationDb", "")])
            ok, od = try_op(res, "anndb", "make-other:" + ocls, lambda: make_anndb(res, rng, ocls, f"o{k}"))
            if not ok:
                yield None, op, {**d, "raised": True}
                continue
            other, odesc = od
            d["other"] = odesc
            if op == "update":

                def _upd(other=other):
                    db.update(other)
                    return db

                ok, new = try_op(res, "anndb", op, _upd)
            else:
                ok, new = try_op(res, "anndb", op, lambda: db.union(other))
        elif op == "subset":
            kw = rng.choice([{"biotype": "gene"}, {"seqid": "s1"}, {"start": 5, "stop": 30, "allow_partial": True}, {"strand": "-"}])
            d.update(kw)
            ok, new = try_op(res, "anndb", op, lambda: db.subset(**kw))
        else:
            ok, new = try_op(res, "anndb", op, lambda: _copy.deepcopy(db))
        if not ok or new is None:
            yield None, op, {**d, "raised": True}
            continue
        db = new
        yield item(db), op, d


# legacy annotation dicts (registry entry 'annotation_to_annotation_db')


def run_legacy_annotations(res, rng, item_seed):
    """the registered converter for pre-annotation-db serialised features: the observation vector of the dict (its
    feature names, biotypes, plus-strand coordinates and strands as written) must equal that of the db it becomes"""
    seqid = rng.choice(["s1", "seq_x"])
    P = 40
    anns = []
    expect = []
    for i in range(rng.randint(1, 4)):
        spans = rand_spans(rng, P, rng.choice([1, 2, 3]))
        rev = rng.random() < 0.3
        # the legacy (pre annotation-db) layout: a Map of Span dicts, minus-strand features carry reverse=True spans
        sp = [
            {"start": a, "end": b, "tidy_start": False, "tidy_end": False, "value": None, "reverse": rev, "type": "cogent3.core.location.Span", "version": "2023.2.12a1"}
            for a, b in (spans[::-1] if rev else spans)
        ]
        fm = {"spans": sp, "tidy": False, "parent_length": P, "termini_unknown": False, "type": "cogent3.core.location.Map", "version": "2023.2.12a1"}
        biotype = rng.choice(["gene", "exon", "CDS"])
        name = f"old{i}"
        anns.append({"annotation_construction": {"type": biotype, "name": name, "map": fm}, "type": "cogent3.core.annotation.AnnotatableFeature", "version": "2023.2.12a1"})
        expect.append({"seqid": seqid, "biotype": biotype, "name": name, "spans": sorted([list(s) for s in spans]), "strand": "-" if rev else "+"})
    data = {"type": "annotation_to_annotation_db", "data": anns, rng.choice(["name", "seqid"]): seqid}
    replay = {"kind": "one", "family": "legacy-annotations", "item_seed": item_seed}
    desc = json.loads(json.dumps(norm(data)))
    for ch in ("rich", "json"):
        payload = _copy.deepcopy(data) if ch == "rich" else json.loads(json.dumps(norm(data)))
        res.evals += 1
        res.count(f"roundtrip:legacy-annotations:{ch}")
        res.count("covered:annotation_to_annotation_db")
        res.sig("legacy-annotations", len(anns), ch)
        try:
            db = D(payload)
            got = []
            for r in db.get_records_matching():
                r = dict(r)
                got.append({"seqid": r["seqid"], "biotype": r["biotype"], "name": r["name"], "spans": sorted(norm(r["spans"])), "strand": r.get("strand") or "+"})
        except Exception as e:  # noqa: BLE001
            res.witness(exc_mechanism(f"C10/legacy-annotations/{ch}", e), data=desc, error=repr(e)[:300], replay_case=replay)
            continue
        key = lambda r: json.dumps(r, sort_keys=True)  # noqa: E731
        dd = diff(sorted(norm(expect), key=key), sorted(norm(got), key=key))
        if dd:
            what = dd[0].rsplit("/", 1)[-1]
            res.witness(f"C10/legacy-annotations/{ch}/{what}-differs", data=desc, at=dd[0], expected=dd[1], got=dd[2], replay_case=replay)
    res.count("histories:legacy-annotations")


@family("alphabet-old")
def _f_alpha_old(res, rng, deep):
    return gen_alpha_old(res, rng, rng.randint(1, 3))


@family("moltype-old")
def _f_moltype_old(res, rng, deep):
    return gen_moltype_old(res, rng, 1)


@family("alphabet-new")
def _f_alpha_new(res, rng, deep):
    return gen_alpha_new(res, rng, rng.randint(1, 2))


@family("moltype-new")
def _f_moltype_new(res, rng, deep):
    return gen_moltype_new(res, rng, 1)


@family("indelmap")
def _f_indelmap(res, rng, deep):
    return gen_indelmap(res, rng, rng.randint(1, 5 if deep else 3))


@family("featuremap")
def _f_fmap(res, rng, deep):
    return gen_fmap(res, rng, rng.randint(1, 5 if deep else 3))


@family("anndb-basic")
def _f_anndb_basic(res, rng, deep):
    return gen_anndb(res, rng, "Basic", rng.randint(1, 5 if deep else 3))


@family("anndb-gff")
def _f_anndb_gff(res, rng, deep):
    return gen_anndb(res, rng, "Gff", rng.randint(1, 5 if deep else 3))


@family("anndb-genbank")
def _f_anndb_gb(res, rng, deep):
    return gen_anndb(res, rng, "Genbank", rng.randint(1, 5 if deep else 3))


# ---------------------------------------------------------------------------
# substitution models

PROBE_TREE = "(a:0.1,b:0.2,(c:0.3,d:0.15)e:0.05)"


def probe_alignment(sm):
    """a small fixed alignment over the model's own states (harness data, deterministic)"""
    states = [str(s) for s in sm.get_alphabet()]
    prng = random.Random(len(states) * 7919 + len(states[0]))
    ncols = 6
    data = {}
    for nm in "abcd":
        data[nm] = "".join(prng.choice(states) for _ in range(ncols))
    return data


def model_lf_probe(sm):
    from cogent3 import make_aligned_seqs, make_tree

    data = probe_alignment(sm)
    mt = "protein" if sm.get_alphabet().moltype.label.startswith("protein") else "dna"
    lf = sm.make_likelihood_function(make_tree(PROBE_TREE))
    lf.set_alignment(make_aligned_seqs(data, moltype=mt))
    prng = random.Random(11)
    pars = sorted(p for p in sm.get_param_list())
    for p in pars:
        lf.set_param_rule(p, init=round(prng.uniform(0.3, 3.0), 3))
    out = {"lnL": lf.lnL, "nfp": lf.nfp, "param_names": sorted(lf.get_param_names())}
    try:
        out["Q"] = lf.get_rate_matrix_for_edge("a", calibrated=False).array
    except Exception as e:  # noqa: BLE001
        out["Q"] = "n/a " + type(e).__name__
    out["psub"] = lf.get_psub_for_edge("a").array
    out["mprobs"] = lf.get_motif_probs().to_dict()
    return out


def model_components():
    return [
        ("name", lambda m: m.name),
        ("param_list", lambda m: sorted(m.get_param_list())),
        ("states", lambda m: [str(s) for s in m.get_alphabet()]),
        ("word_length", lambda m: len(str(list(m.get_alphabet())[0]))),
        ("motif_probs", lambda m: dict(m.motif_probs) if m.motif_probs is not None else None),
        ("predicate-masks", lambda m: {k: np.asarray(v).astype(int) for k, v in getattr(m, "predicate_masks", {}).items()}),
        ("options", lambda m: {k: getattr(m, k, "n/a") for k in ("_optimise_motif_probs", "motif_probs_from_align", "recode_gaps", "model_gaps")}),
        ("rate-heterogeneity", lambda m: {k: repr(getattr(m, k, None)) for k in ("with_rate", "ordered_param", "distribution_name" if hasattr(m, "distribution_name") else "distribution")}),
        ("lf-probe", model_lf_probe),
    ]


MODEL_SPECS = {
    # spec name -> (cost class, builder(rng) -> (model, description))
}


def _named(name, cost="cheap", opts=None):
    def build(rng):
        from cogent3 import get_model

        kw = {}
        choices = opts if opts is not None else ["optimise_motif_probs", "rate-gamma", "rate-free", "recode_gaps", "equal_motif_probs", "motif_probs", "name"]
        for o in rng.sample(choices, rng.randint(0, min(2, len(choices)))):
            if o == "optimise_motif_probs":
                kw["optimise_motif_probs"] = rng.random() < 0.7
            elif o == "rate-gamma":
                kw.update(ordered_param="rate", distribution="gamma")
            elif o == "rate-free":
                kw.update(ordered_param="rate", distribution="free")
            elif o == "recode_gaps":
                kw["recode_gaps"] = rng.random() < 0.5
            elif o == "equal_motif_probs":
                kw["equal_motif_probs"] = True
            elif o == "motif_probs" and name in ("F81", "HKY85", "TN93", "GTR", "GN", "ssGN"):
                v = M.dirichlet(rng, 4)
                kw["motif_probs"] = dict(zip("TCAG", [float(x) for x in v]))
            elif o == "name" and rng.random() < 0.5:
                kw["name"] = name  # explicit name equal to the catalogue name
        return get_model(name, **kw), {"get_model": name, **kw}

    MODEL_SPECS[f"named:{name}"] = (cost, build)


for _n in ("JC69", "K80", "F81", "HKY85", "TN93", "GTR", "GN", "ssGN"):
    _named(_n)
for _n in ("BH", "DT"):
    _named(_n, opts=["optimise_motif_probs"])
for _n in ("JTT92", "DSO78", "WG01", "AH96", "AH96_mtmammals"):
    _named(_n, cost="medium", opts=["optimise_motif_probs", "rate-gamma"])
for _n in ("MG94HKY", "MG94GTR", "GY94", "Y98", "CNFHKY", "CNFGTR", "H04G", "H04GK", "H04GGK", "GNC"):
    _named(_n, cost="slow", opts=["optimise_motif_probs", "rate-gamma"])


def _custom(label, cost, fn):
    MODEL_SPECS[f"class:{label}"] = (cost, fn)


def _mk_class(modname, clsname, kind):
    def build(rng):
        import importlib

        from cogent3 import get_moltype
        from cogent3.evolve.predicate import MotifChange

        cls = getattr(importlib.import_module(modname), clsname)
        kw = {}
        desc = {"class": clsname}
        dna = get_moltype("dna")
        if kind == "nuc-pred":
            preds = rng.choice([["kappa"], [MotifChange("A", "G").aliased("ag"), MotifChange("C", "T").aliased("ct")], {"beta": MotifChange("A", "T")}, []])
            kw.update(predicates=preds)
            desc["predicates"] = str(preds)
            if rng.random() < 0.5:
                kw["name"] = "custom" + clsname[:6]
            if rng.random() < 0.4:
                kw["optimise_motif_probs"] = True
        elif kind == "motif-len":
            preds = ["kappa"] if clsname.startswith("TimeReversible") else rng.choice([None, ["A>G"], ["A>G", "C>T"]])
            kw.update(predicates=preds, mprob_model=rng.choice(["tuple", "conditional", "monomer"]))
            if rng.random() < 0.5:
                kw["name"] = "custom" + clsname[:8]
            desc.update({k: v for k, v in kw.items()})
        elif kind == "alphabet":
            kw["alphabet"] = dna.alphabet
            if rng.random() < 0.5:
                kw["name"] = "custom" + clsname[:8]
            if rng.random() < 0.5:
                kw["optimise_motif_probs"] = True
            desc.update({k: str(v) for k, v in kw.items()})
        elif kind == "alphabet-pred":
            kw["alphabet"] = dna.alphabet
            kw["predicates"] = rng.choice([None, ["kappa"], [MotifChange("A", "G").aliased("ag")]])
            if rng.random() < 0.5:
                kw["name"] = "custom" + clsname[:8]
            desc.update({k: str(v) for k, v in kw.items()})
        elif kind == "protein-pred":
            kw["predicates"] = rng.choice([None, [MotifChange("A", "G").aliased("ag")]])
            if rng.random() < 0.5:
                kw["name"] = "customprot"
            desc.update({k: str(v) for k, v in kw.items()})
        elif kind == "codon-pred":
            kw["predicates"] = rng.choice([["kappa", "omega"], ["omega"]])
            kw["mprob_model"] = rng.choice(["tuple", "conditional", "monomer"])
            if getattr(rng, "slot", 0) % 2 == 0:  # every run has a model with a non-standard genetic code
                kw["gc"] = rng.choice([2, 4])
            if rng.random() < 0.5:
                kw["name"] = "customcodon"
            desc.update({k: str(v) for k, v in kw.items()})
        elif kind == "empirical":
            n = 4
            mat = np.array([[0 if i == j else round(rng.uniform(0.2, 2.0), 3) for j in range(n)] for i in range(n)])
            mat = (mat + mat.T) / 2
            kw.update(alphabet=dna.alphabet, rate_matrix=mat, name="customEmp")
            desc.update(rate_matrix=mat.tolist())
        return cls(**kw), desc

    return build


SMOD = "cogent3.evolve.substitution_model"
NSMOD = "cogent3.evolve.ns_substitution_model"
_custom("TimeReversibleNucleotide", "cheap", _mk_class(SMOD, "TimeReversibleNucleotide", "nuc-pred"))
_custom("TimeReversibleDinucleotide", "medium", _mk_class(SMOD, "TimeReversibleDinucleotide", "motif-len"))
_custom("TimeReversibleTrinucleotide", "slow", _mk_class(SMOD, "TimeReversibleTrinucleotide", "motif-len"))
_custom("TimeReversibleCodon", "slow", _mk_class(SMOD, "TimeReversibleCodon", "codon-pred"))
_custom("TimeReversibleProtein", "medium", _mk_class(SMOD, "TimeReversibleProtein", "protein-pred"))
_custom("Empirical", "cheap", _mk_class(SMOD, "Empirical", "empirical"))
_custom("Parametric", "cheap", _mk_class(SMOD, "Parametric", "alphabet-pred"))
_custom("Stationary", "cheap", _mk_class(SMOD, "Stationary", "alphabet-pred"))
_custom("TimeReversible", "cheap", _mk_class(SMOD, "TimeReversible", "alphabet-pred"))
_custom("NonReversibleNucleotide", "cheap", _mk_class(NSMOD, "NonReversibleNucleotide", "nuc-pred"))
_custom("NonReversibleDinucleotide", "medium", _mk_class(NSMOD, "NonReversibleDinucleotide", "motif-len"))
_custom("NonReversibleTrinucleotide", "slow", _mk_class(NSMOD, "NonReversibleTrinucleotide", "motif-len"))
_custom("NonReversibleCodon", "slow", _mk_class(NSMOD, "NonReversibleCodon", "codon-pred"))
_custom("NonReversibleProtein", "medium", _mk_class(NSMOD, "NonReversibleProtein", "protein-pred"))
_custom("General", "cheap", _mk_class(NSMOD, "General", "alphabet"))
_custom("GeneralStationary", "cheap", _mk_class(NSMOD, "GeneralStationary", "alphabet"))
_custom("StrandSymmetric", "cheap", _mk_class(NSMOD, "StrandSymmetric", "nuc-pred"))
_custom("DiscreteSubstitutionModel", "cheap", _mk_class(NSMOD, "DiscreteSubstitutionModel", "alphabet"))


def run_model(res, rng, item_seed, spec):
    cost, build = MODEL_SPECS[spec]
    ok, md = try_op(res, "model", "build:" + spec, lambda: build(rng))
    if not ok:
        return
    sm, desc = md
    replay = {"kind": "one", "family": "model", "spec": spec, "item_seed": item_seed, "slot": getattr(rng, "slot", 0)}
    opts = sorted(k for k in desc if k not in ("get_model", "class"))
    hist = ["fresh"] + (["options:" + "+".join(opts)] if opts else ["defaults"])
    # the 'history' of a substitution model is its construction options (it has no mutating API)
    item = Item(type(sm).__name__, sm, model_components(), tol=1e-8, mech="substitution_model")
    res.count("op:model:" + spec.split(":")[0])
    res.count("model-spec:" + spec)
    check_item(res, item, hist, [{"spec": spec, **norm(desc)}], replay)
    res.count("histories:model")
    res.sample({"family": "model", "spec": spec, "options": norm(desc)})


# ---------------------------------------------------------------------------
# likelihood functions


# G: parameter rules export probabilities (motif probs, discrete-time psubs) through adjusted_gt_minprob(minprob=1e-6)
# (recalculation/setting.py get_param_rule_dict): an optimised probability below 1e-6 is raised on export by design,
# which moves lnL in the 6th-7th significant digit. Likelihood functions are therefore compared with 1e-5.
LF_TOL = 1e-5


def canon_rules(rules):
    out = []
    for r in rules:
        r = dict(r)
        for k in ("edges", "loci", "bins"):
            if isinstance(r.get(k), (list, tuple, set)):
                r[k] = sorted(r[k])
        out.append(norm(r))
    return sorted(out, key=lambda r: json.dumps(r, sort_keys=True, default=str))


def lf_components(multi=False):
    def stats(lf):
        out = {}
        for t in lf.get_statistics(with_motif_probs=True, with_titles=True):
            out[t.title] = {"header": list(t.header), "rows": t.to_list() if t.shape[1] != 1 else [[v] for v in t.to_list()]}
        return out

    comps = [
        ("lnL", lambda lf: lf.lnL),
        ("nfp", lambda lf: lf.nfp),
        ("name", lambda lf: lf.get_name()),
        ("param_names", lambda lf: sorted(lf.get_param_names())),
        ("param_rules", lambda lf: canon_rules(lf.get_param_rules())),
        ("statistics", stats),
        ("motif_probs", lambda lf: lf.get_motif_probs().to_dict() if not isinstance(lf.get_motif_probs(), dict) else {k: v.to_dict() for k, v in lf.get_motif_probs().items()}),
        ("tree", lambda lf: lf.get_annotated_tree().get_newick(with_distances=True, with_node_names=True)),
        ("model-name", lambda lf: lf.model.name),
        ("model-class", lambda lf: type(lf.model).__name__),
        ("bins", lambda lf: list(lf.bin_names)),
        ("loci", lambda lf: list(lf.locus_names)),
        ("lnL-after-nudge", nudge),
    ]
    if not multi:
        comps.append(("alignment", lambda lf: lf.get_param_value("alignment").to_dict()))
    return comps


def nudge(lf):
    """the copy responds to a further parameter change like the original (done on a deep copy via rules)"""
    rules = lf.get_param_rules()
    lengths = [r for r in rules if r["par_name"] == "length" and "init" in r]
    if not lengths:
        return "no-free-length"
    r = lengths[0]
    cur = r["init"]
    kw = {k: r[k] for k in ("edge", "edges", "locus", "loci") if k in r}
    lf.set_param_rule("length", init=cur + 0.125, **kw)
    out = lf.lnL
    lf.set_param_rule("length", init=cur, **kw)
    return out


LF_MODELS_CHEAP = ["JC69", "K80", "F81", "HKY85", "TN93", "GTR", "GN", "ssGN"]
LF_MODELS_MEDIUM = ["JTT92", "DINUC_tuple", "DINUC_monomer"]
LF_MODELS_SLOW = ["MG94HKY", "GY94", "CNFGTR", "GNC"]


def gen_lf(res, rng, model, depth, variant):
    from cogent3 import get_model, make_aligned_seqs, make_tree

    kind = M.kind_of(model) if model not in ("BH",) else "nuc"
    d0 = {"model": model, "variant": variant}
    multi = variant == "multi-locus"
    if model == "BH":
        tree = M.random_tree(rng, rng.randint(3, 4), rooted=True, polytomy=0.0, zero_frac=0.0)
        aln = M.random_alignment(rng, M.tips(tree), "nuc", rng.randint(5, 20), 0.0)

        def _mk():
            sm = get_model("BH")
            lf = sm.make_likelihood_function(make_tree(M.newick(tree)))
            lf.set_alignment(make_aligned_seqs(aln, moltype="dna"))
            return lf

        d0.update(tree=M.newick(tree), aln=aln)
        ok, lf = try_op(res, "lf", "build-discrete", _mk)
    elif multi:
        prob = M.gen_problem(rng, model, ntips=rng.randint(3, 4), ncols=rng.randint(5, 20), ambig=0.0)
        aln2 = M.random_alignment(rng, M.tips(prob["tree"]), "nuc", rng.randint(5, 20), 0.0)

        def _mk():
            sm = M.make_model(model)
            lf = sm.make_likelihood_function(make_tree(M.newick(prob["tree"])), loci=["l1", "l2"])
            lf.set_alignment([make_aligned_seqs(prob["aln"], moltype="dna"), make_aligned_seqs(aln2, moltype="dna")])
            for p, v in prob["params"].items():
                lf.set_param_rule(p, init=v)
            return lf

        d0.update(problem=prob, aln2=aln2)
        ok, lf = try_op(res, "lf", "build-multi-locus", _mk)
    else:
        bins = rng.choice([2, 3]) if variant == "bins" else 1
        big = kind in ("codon", "protein", "dinuc")
        prob = M.gen_problem(
            rng, model, ntips=rng.randint(2, 4 if big else 5), ncols=rng.randint(2, 8 if big else 25),
            ambig=rng.choice([0.0, 0.1]), scoped=(variant == "scoped"), bins=bins,
        )  # fmt: skip
        if getattr(rng, "slot", 0) % 3 == 1:
            # taxon / node names with an internal blank: legal, and they key the tree's edge attributes, the
            # alignment rows and the scoped parameter rules of the serialised form
            ren = {}
            for node in M.edges(prob["tree"]):
                ren[node["name"]] = ("sp " if not node["children"] else "node ") + node["name"][1:]
                node["name"] = ren[node["name"]]
            prob["aln"] = {ren[k]: v for k, v in prob["aln"].items()}
            prob["edge_params"] = {par: [[[ren[e] for e in g], v] for g, v in groups] for par, groups in prob["edge_params"].items()}
            d0["names"] = "internal-blank"
        d0.update(problem=prob)
        ok, lf = try_op(res, "lf", "build", lambda: M.build_lf(prob))
    if not ok:
        return
    item = lambda lf: Item("AlignmentLikelihoodFunction", lf, lf_components(multi), tol=LF_TOL, mech="likelihood_function")  # noqa: E731
    yield item(lf), "fresh", d0
    for _ in range(depth):
        pars = [p for p in lf.get_param_names() if p not in ("mprobs", "length", "bprobs", "rate", "psubs")]
        edges = [e.name for e in lf.tree.get_edge_vector(include_root=False)]
        tipn = lf.tree.get_tip_names()
        ops = ["set_name", "optimise", "length-constant", "length-init", "mprobs"]
        if pars:
            ops += ["param-constant", "param-bounds", "param-independent", "param-edges", "param-clade", "param-init", "param-constant-and-bounded", "param-constant-and-bounded"]
        if model == "BH":
            ops = ["set_name", "optimise"]
        op = rng.choice(ops)
        d = {"op": op}
        if op == "set_name":
            nm = rng.choice(["null", "alt model", "lf-1"])
            d["name"] = nm

            def _sn(nm=nm):
                lf.set_name(nm)
                return lf

            ok, new = try_op(res, "lf", op, _sn)
        elif op == "optimise":
            n = rng.randint(3, 12)
            d["max_evaluations"] = n

            def _opt(n=n):
                lf.optimise(max_evaluations=n, limit_action="ignore", show_progress=False, local=True)
                return lf

            ok, new = try_op(res, "lf", op, _opt)
        elif op in ("length-constant", "length-init"):
            e = rng.choice(edges)
            v = rng.choice([0.0, 0.05, 0.5, 1.25])
            d.update(edge=e, value=v)

            def _lc(e=e, v=v):
                if op == "length-constant":
                    lf.set_param_rule("length", edge=e, is_constant=True, value=v)
                else:
                    lf.set_param_rule("length", edge=e, init=v, upper=rng.choice([5.0, 50.0]))
                return lf

            ok, new = try_op(res, "lf", op, _lc)
        elif op == "mprobs":
            states = [str(s) for s in lf.model.get_alphabet()]
            mk = M.mprob_kind(model) if model != "BH" else "states"
            if mk == "fixed-equal":
                yield None, op, {**d, "skipped": True}
                continue
            keys = list("TCAG") if mk == "monomer" else states
            v = M.dirichlet(rng, len(keys), 0.05 if len(keys) <= 4 else 0.2)
            mp = dict(zip(keys, [float(x) for x in v]))
            d["motif_probs"] = mp

            def _mp(mp=mp):
                lf.set_motif_probs(mp)
                return lf

            ok, new = try_op(res, "lf", op, _mp)
        else:
            p = rng.choice(pars)
            d["param"] = p
            v = round(rng.uniform(0.3, 4.0), 4)
            if op == "param-constant":
                d["value"] = v
                fn = lambda: lf.set_param_rule(p, is_constant=True, value=v)  # noqa: E731
            elif op == "param-bounds":
                lo, hi = round(v / 3, 4), round(v * 3, 4)
                d.update(init=v, lower=lo, upper=hi)
                fn = lambda: lf.set_param_rule(p, init=v, lower=lo, upper=hi)  # noqa: E731
            elif op == "param-independent":
                fn = lambda: lf.set_param_rule(p, is_independent=True)  # noqa: E731
            elif op == "param-constant-and-bounded":
                # the same parameter constant on some edges, free with non-default bounds on the others
                es = rng.sample(edges, rng.randint(1, max(1, len(edges) - 1)))
                rest = [e for e in edges if e not in es]
                lo, hi = round(v / 4, 4), round(v * 5, 4)
                d.update(constant_edges=es, value=v, bounded_edges=rest, lower=lo, upper=hi)

                def fn(es=es, rest=rest, lo=lo, hi=hi):
                    lf.set_param_rule(p, edges=es, is_constant=True, value=v)
                    if rest:
                        lf.set_param_rule(p, edges=rest, init=round((lo + hi) / 2, 4), lower=lo, upper=hi)

            elif op == "param-edges":
                es = rng.sample(edges, rng.randint(1, max(1, len(edges) - 1)))
                d.update(edges=es, init=v)
                fn = lambda: lf.set_param_rule(p, edges=es, init=v)  # noqa: E731
            elif op == "param-clade":
                if len(tipn) < 3:
                    yield None, op, {**d, "skipped": True}
                    continue
                tn = rng.sample(tipn, 2)
                kw = dict(tip_names=tn, clade=True, stem=rng.random() < 0.5, init=v)
                if rng.random() < 0.5:
                    kw["outgroup_name"] = rng.choice([t for t in tipn if t not in tn])
                d.update(kw)
                fn = lambda: lf.set_param_rule(p, **kw)  # noqa: E731
            else:
                d["init"] = v
                fn = lambda: lf.set_param_rule(p, init=v)  # noqa: E731

            def _pr(fn=fn):
                fn()
                _ = lf.lnL
                return lf

            ok, new = try_op(res, "lf", op, _pr)
        if not ok:
            yield None, op, {**d, "raised": True}
            continue
        yield item(lf), op, d


def run_seq_lf(res, rng, item_seed):
    """SequenceLikelihoodFunction (pair-HMM forward likelihood of unaligned sequences)"""
    from cogent3 import make_tree, make_unaligned_seqs

    model = rng.choice(["HKY85", "F81", "JC69"])
    s1 = rand_seq_str(rng, "dna", rng.randint(4, 9))
    s2 = rand_seq_str(rng, "dna", rng.randint(4, 9))
    desc = [{"model": model, "seqs": {"a": s1, "b": s2}}]

    def _mk():
        sm = M.make_model(model)
        lf = sm.make_likelihood_function(make_tree("(a:0.1,b:0.2)"), aligned=False)
        lf.set_sequences(make_unaligned_seqs({"a": s1, "b": s2}, moltype="dna"))
        _ = lf.get_log_likelihood()
        return lf

    ok, lf = try_op(res, "lf", "build-sequence-lf", _mk)
    if not ok:
        return
    comps = [
        ("lnL", lambda lf: lf.get_log_likelihood()),
        ("nfp", lambda lf: lf.get_num_free_params()),
        ("param_names", lambda lf: sorted(lf.get_param_names())),
    ]
    hist = ["fresh"]
    if model != "JC69":
        par = "kappa" if model == "HKY85" else None
        if par:
            lf.set_param_rule(par, init=2.5)
            hist.append("param-init")
            desc.append({"op": "param-init", "param": par, "init": 2.5})
    lf.set_param_rule("length", is_independent=False)
    hist.append("length-shared")
    desc.append({"op": "length-shared"})
    item = Item("SequenceLikelihoodFunction", lf, comps, tol=1e-8)
    check_item(res, item, hist, desc, {"kind": "one", "family": "sequence-lf", "item_seed": item_seed})
    res.count("histories:sequence-lf")


# ---------------------------------------------------------------------------
# app results and NotCompleted


def tiny_lf(rng, model="F81", name=None, optimise=True):
    prob = M.gen_problem(rng, model, ntips=3, ncols=rng.randint(8, 20), ambig=0.0, rooted=False, polytomy=0.0)
    lf = M.build_lf(prob)
    if name:
        lf.set_name(name)
    if optimise:
        lf.optimise(max_evaluations=rng.randint(3, 8), limit_action="ignore", show_progress=False, local=True)
    return lf, prob


def member_obs(v):
    """observation of one member of a result (after deserialised_values())"""
    if hasattr(v, "deserialised_values"):
        return result_obs(v)
    tn = type(v).__name__
    if tn == "AlignmentLikelihoodFunction":
        return {"class": tn, "lnL": v.lnL, "nfp": v.nfp, "rules": canon_rules(v.get_param_rules()), "name": v.get_name()}
    if tn == "Table":
        return {"class": tn, "header": list(v.header), "rows": v.to_list() if v.shape[1] != 1 else [[x] for x in v.to_list()], "title": v.title, "index_name": v.index_name}
    if tn == "DistanceMatrix":
        return {"class": tn, "names": list(v.names), "array": v.array}
    if tn in ("DictArray",):
        return {"class": tn, "names": [list(n) if not isinstance(n, int) else n for n in v.template.names], "array": v.array}
    if tn in ("Alignment", "ArrayAlignment", "SequenceCollection"):
        return {"class": tn, "seqs": v.to_dict(), "moltype": mt_label(v)}
    if tn in ("PhyloNode",):
        return {"class": tn, "newick": v.get_newick(with_distances=True, with_node_names=True)}
    if hasattr(v, "to_rich_dict"):
        return {"class": tn, "str": str(v)}
    return {"plain": v}


def result_obs(r):
    r.deserialised_values()
    out = {"class": type(r).__name__, "source": r.source, "keys": [keystr(k) for k in r.keys()], "members": {keystr(k): member_obs(r[k]) for k in r.keys()}}
    tn = type(r).__name__
    if tn == "model_result":
        out.update(name=r.name, lnL=r.lnL, nfp=r.nfp, DLC=r.DLC, unique_Q=r.unique_Q, num_evaluations=r.num_evaluations, elapsed_time=r.elapsed_time, stat=r._stat.__name__)
    if tn in ("model_collection_result", "hypothesis_result"):
        out.update(name=r.name)
    if tn == "hypothesis_result":
        out.update(LR=r.LR, df=r.df, pvalue=r.pvalue, null=r.null.name, alt=r.alt.name)
    if tn == "bootstrap_result":
        out.update(observed_LR=r.observed.LR, null_dist=sorted(r.null_dist))
    return out


def result_components():
    def repr_(r):
        r.deserialised_values()
        return repr(r)

    return [("content", result_obs), ("length", lambda r: len(r)), ("repr", repr_)]


def make_model_result(rng, name, model, source, split=False):
    from cogent3.app.result import model_result

    mr = model_result(name=name, source=source, stat=sum)
    if split:
        for k in (1, 2, 3):
            lf, _ = tiny_lf(rng, model, name=None, optimise=False)
            mr[k] = lf
    else:
        lf, _ = tiny_lf(rng, model)
        mr[name] = lf
    mr.num_evaluations = rng.randint(3, 50)
    mr.elapsed_time = round(rng.uniform(0.01, 3), 3)
    return mr


def gen_result(res, rng, rtype):
    from cogent3 import make_aligned_seqs, make_table, make_tree
    from cogent3.app import result as R
    from cogent3.evolve.fast_distance import DistanceMatrix
    from cogent3.util.dict_array import DictArrayTemplate

    source = rng.choice(["data/brca1.fasta", "x.json", "some source"])
    item = lambda r: Item(type(r).__name__, r, result_components(), tol=LF_TOL, mech="result." + type(r).__name__)  # noqa: E731
    if rtype == "generic":
        r = R.generic_result(source=source)
        yield item(r), "fresh", {"type": rtype, "source": source}
        for k in range(rng.randint(1, 4)):
            which = rng.choice(["int", "str", "list", "dict", "falsy", "table", "dictarray", "alignment", "tree", "distance", "overwrite"])
            key = f"k{k}" if which != "overwrite" else "k0"
            if which == "int":
                v = rng.randint(0, 99)
            elif which == "falsy":
                v = rng.choice([0, "", [], {}, 0.0, False, None])
            elif which == "str":
                v = "text value"
            elif which == "list":
                v = [1, 2.5, "x", None]
            elif which in ("dict", "overwrite"):
                v = {"a": [1, 2], "b": {"c": 1.5}}
            elif which == "table":
                v = rand_table(rng)[0]
            elif which == "dictarray":
                v = DictArrayTemplate(["a", "b"], ["x", "y", "z"]).wrap(np.arange(6).reshape(2, 3) * rng.randint(1, 5))
            elif which == "alignment":
                v = make_aligned_seqs(rand_aln_data(rng, "dna", 2, 8), moltype="dna")[1:7]
            elif which == "tree":
                v = make_tree(rand_tree_newick(rng, 4, "all")).rooted_with_tip("t0") if rng.random() < 0 else make_tree("((a:1,b:2)ab:0.5,c:3,d:4)root;").rooted_at("ab")
            else:
                v = DistanceMatrix({("a", "b"): 1.0, ("b", "a"): 1.25, ("a", "c"): 2.0, ("c", "a"): 0.5, ("b", "c"): 0.5}).take_dists(["a", "c"])

            def _set(key=key, v=v):
                r[key] = v
                return r

            ok, _ = try_op(res, "result", "set:" + which, _set)
            if not ok:
                yield None, "set:" + which, {"op": "set", "kind": which, "raised": True}
                continue
            yield item(r), "set:" + which, {"op": "set", "key": key, "kind": which}
    elif rtype == "tabular":
        r = R.tabular_result(source=source)
        yield item(r), "fresh", {"type": rtype, "source": source}
        for k in range(rng.randint(1, 3)):
            which = rng.choice(["table", "dictarray", "distance"])
            if which == "table":
                t = rand_table(rng)[0]
                v = t.sorted(columns=t.header[0]) if t.shape[0] else t
            elif which == "dictarray":
                v = DictArrayTemplate(["a", "b"], ["x", "y", "z"]).wrap(np.arange(6).reshape(2, 3) / rng.randint(1, 5))[["b"]]
            else:
                v = DistanceMatrix({("a", "b"): 1.0, ("a", "c"): float("nan"), ("b", "c"): 0.5})
                v["c", "b"] = 0.875

            def _set(k=k, v=v):
                r[f"k{k}"] = v
                return r

            ok, _ = try_op(res, "result", "set:" + which, _set)
            if not ok:
                yield None, "set:" + which, {"op": "set", "kind": which, "raised": True}
                continue
            yield item(r), "set:" + which, {"op": "set", "key": f"k{k}", "kind": which}
    elif rtype == "model":
        split = rng.random() < 0.3
        model = rng.choice(["F81", "HKY85", "JC69", "GTR", "GN"])
        ok, mr = try_op(res, "result", "make_model_result", lambda: make_model_result(rng, "mod-" + model, model, source, split))
        if not ok:
            return
        yield item(mr), "optimised-lf" if not split else "three-lfs", {"type": rtype, "model": model, "split_codons": split, "source": source}

        def _upd():
            mr.num_evaluations = 77
            mr.elapsed_time = 9.75
            return mr

        ok, _ = try_op(res, "result", "set-stats", _upd)
        if ok:
            yield item(mr), "set-evaluation-stats", {"op": "num_evaluations/elapsed_time"}
    elif rtype in ("model_collection", "hypothesis", "bootstrap"):

        def mk_hyp(kind):
            null = make_model_result(rng, "null", "F81", source)
            alt = make_model_result(rng, "alt", rng.choice(["HKY85", "GTR"]), source)
            if kind == "hypothesis":
                h = R.hypothesis_result(name_of_null="null", name=rng.choice([None, "a test"]), source=source)
            else:
                h = R.model_collection_result(name=rng.choice([None, "coll"]), source=source)
            h["null"] = null
            h["alt"] = alt
            return h

        if rtype != "bootstrap":
            ok, h = try_op(res, "result", "make:" + rtype, lambda: mk_hyp(rtype))
            if not ok:
                return
            yield item(h), "two-fitted-models", {"type": rtype, "source": source}
            if rtype == "model_collection":
                ok, hh = try_op(res, "result", "get_hypothesis_result", lambda: h.get_hypothesis_result("null", "alt"))
                if ok:
                    yield item(hh), "get_hypothesis_result", {"op": "get_hypothesis_result"}
        else:

            def mk_boot():
                b = R.bootstrap_result(source=source)
                b.observed = mk_hyp("hypothesis")
                return b

            ok, b = try_op(res, "result", "make:bootstrap", mk_boot)
            if not ok:
                return
            yield item(b), "observed", {"type": rtype, "source": source}
            ok, _ = try_op(res, "result", "add_to_null", lambda: b.add_to_null(mk_hyp("hypothesis")))
            if ok:
                yield item(b), "add_to_null", {"op": "add_to_null"}


def notcompleted_components():
    return [
        ("type", lambda n: n.type),
        ("origin", lambda n: n.origin),
        ("message", lambda n: n.message),
        ("source", lambda n: n.source),
        ("bool", lambda n: bool(n)),
        ("int", lambda n: int(n)),
        ("str", lambda n: str(n)),
    ]


def gen_notcompleted(res, rng):
    from cogent3 import get_app, make_aligned_seqs
    from cogent3.app.composable import NotCompleted

    via = rng.choice(["direct", "direct", "app", "app-chain"])
    item = lambda n: Item("NotCompleted", n, notcompleted_components())  # noqa: E731
    aln = make_aligned_seqs(rand_aln_data(rng, "dna", 3, 9), moltype="dna", info={"source": rng.choice(["dir/file.fa", "x.nex"])})
    if via == "direct":
        typ = rng.choice(["ERROR", "FAIL", "BUG"])
        origin = rng.choice(["some_app", aln, 3])
        msg = rng.choice(["simple", 'with "quotes" and\nnew line', "unicodé ✓", "", "Traceback (most recent call last):\n  File x"])
        src = rng.choice([None, "path/to/f.fa", aln, aln[1:5], __import__("pathlib").Path("a/b.fa")])
        ok, n = try_op(res, "notcompleted", "ctor", lambda: NotCompleted(typ, origin, msg, source=src))
        if not ok:
            return
        yield item(n), "fresh", {"type": typ, "origin": str(type(origin).__name__), "message": msg, "source": str(src)[:40]}
        yield item(n), "from-" + type(src).__name__, {"source-kind": type(src).__name__, "origin-kind": type(origin).__name__}
    else:
        app = get_app("take_named_seqs", "no_such_name")
        if via == "app-chain":
            app = app + get_app("min_length", 3)
        ok, n = try_op(res, "notcompleted", via, lambda: app(aln[1:8] if rng.random() < 0.5 else aln))
        if not ok or not isinstance(n, NotCompleted):
            return
        yield item(n), "fresh", {"via": via}
        yield item(n), via, {"via": via}


# ---------------------------------------------------------------------------
# the registry, walked at run time

# classes served by a prefix entry that cannot be objects of their own (reason given)
NOT_INSTANTIABLE = {
    "cogent3.core.sequence.ABSequence": "the 'ab' MolType cannot make a sequence (its alphabet is lower case, coerce_str upper-cases: AlphabetError)",
    "cogent3.core.sequence.SequenceI": "mixin without a constructor",
    "cogent3.core.sequence.SliceRecordABC": "abstract base class",
    "cogent3.core.sequence.NucleicAcidSequence": "base class without a moltype (no MolType makes it)",
    "cogent3.core.sequence.ArrayNucleicAcidSequence": "base class without a moltype (no MolType makes it)",
    "cogent3.core.sequence.ArrayCodonSequence": "base class without an alphabet: the constructor raises AttributeError",
    "cogent3.core.alignment.SequenceCollection": None,  # has a producer; placeholder to document the lookup below
}
NOT_INSTANTIABLE.pop("cogent3.core.alignment.SequenceCollection")


def registry_concrete():
    """{registry key: [qualified concrete class names it serves]} from the live registry"""
    import importlib
    import pkgutil

    import cogent3

    for m in pkgutil.walk_packages(cogent3.__path__, "cogent3."):
        try:
            importlib.import_module(m.name)
        except Exception:  # noqa: BLE001
            pass
    from cogent3.util.deserialise import _deserialise_func_map

    keys = list(_deserialise_func_map)

    def first_key(type_str):
        for k in keys:
            if k in type_str:
                return k
        return None

    out = {}
    for key in keys:
        mod, _, name = key.rpartition(".")
        target = None
        try:
            target = importlib.import_module(key)
        except Exception:  # noqa: BLE001
            try:
                target = getattr(importlib.import_module(mod), name)
            except Exception:  # noqa: BLE001
                target = None
        if inspect.isclass(target):
            out[key] = [qual(target)]
            # a class entry also serves subclasses defined next to it whose provenance contains the key
            continue
        if inspect.ismodule(target):
            served = []
            for n, c in inspect.getmembers(target, inspect.isclass):
                if c.__module__ != target.__name__ or n.startswith("_"):
                    continue
                if not callable(getattr(c, "to_rich_dict", None)) or inspect.isabstract(c):
                    continue
                if first_key(qual(c)) != key:
                    continue
                served.append(qual(c))
            out[key] = served
            continue
        out[key] = [key]  # not a class or module: a pseudo type string
    return out


def run_registry(res):
    reg = registry_concrete()
    res.evals += 1
    res.count("registry-entries", len(reg))
    for key, classes in reg.items():
        res.count("registered:" + key)
        for c in classes:
            if c in NOT_INSTANTIABLE:
                res.count("excluded:" + c)
                continue
            res.count("concrete:" + c)
    res.sample({"registry": {k: v for k, v in list(reg.items())[:40]}})
    return res


@family("notcompleted")
def _f_nc(res, rng, deep):
    return gen_notcompleted(res, rng)


for _rt in ("generic", "tabular", "model", "model_collection", "hypothesis", "bootstrap"):
    FAMILIES["result-" + _rt] = lambda res, rng, deep, _rt=_rt: gen_result(res, rng, _rt)

for _m in LF_MODELS_CHEAP + LF_MODELS_MEDIUM + LF_MODELS_SLOW + ["BH"]:
    for _v in ("plain", "scoped", "bins", "multi-locus"):
        FAMILIES[f"lf:{_m}:{_v}"] = lambda res, rng, deep, _m=_m, _v=_v, depth=None: gen_lf(res, rng, _m, depth if depth is not None else rng.randint(1, 5 if deep else 3), _v)

SPECIAL["sequence-lf"] = lambda res, rng, seed: run_seq_lf(res, rng, seed)
SPECIAL["legacy-annotations"] = lambda res, rng, seed: run_legacy_annotations(res, rng, seed)


# ---------------------------------------------------------------------------
# cases


def gen_cases(rng, tier):
    q = tier == "quick"
    deep = not q
    mult = 1 if q else 8
    cases = [{"kind": "registry"}]

    def batches(fam, nb, n):
        for _ in range(nb * mult):
            cases.append({"kind": "batch", "family": fam, "seed": rng.randrange(2**32), "n": n, "deep": deep})

    batches("seq-old", 6, 25)
    batches("seq-new", 6, 25)
    batches("seq-array", 2, 25)
    batches("seqview", 3, 25)
    batches("seqsdata", 2, 25)
    batches("coll-old", 4, 20)
    batches("coll-new", 3, 15)
    batches("aln", 6, 12)
    batches("aln-array", 4, 15)
    batches("aligned", 4, 20)
    batches("tree", 4, 30)
    batches("tree-treenode", 2, 30)
    batches("table", 5, 40)
    batches("dictarray", 3, 40)
    batches("distancematrix", 3, 40)
    batches("alphabet-old", 3, 25)
    batches("moltype-old", 1, 14)
    batches("alphabet-new", 3, 12)
    batches("moltype-new", 1, 12)
    batches("indelmap", 3, 40)
    batches("featuremap", 3, 40)
    batches("anndb-basic", 3, 25)
    batches("anndb-gff", 3, 25)
    batches("anndb-genbank", 3, 25)
    batches("legacy-annotations", 1, 30)
    batches("notcompleted", 2, 15)
    batches("sequence-lf", 1, 4)
    for rt in ("generic", "tabular"):
        batches("result-" + rt, 2, 6)
    for rt in ("model", "model_collection", "hypothesis"):
        batches("result-" + rt, 2, 3)
    batches("result-bootstrap", 2, 2)
    quick_slow = {"named:MG94HKY", "named:GY94", "named:CNFHKY", "named:H04G", "class:TimeReversibleTrinucleotide", "class:TimeReversibleCodon", "class:NonReversibleTrinucleotide", "class:NonReversibleCodon"}
    for spec, (cost, _) in MODEL_SPECS.items():
        n = {"cheap": 3, "medium": 2, "slow": 1}[cost]
        if spec in ("class:TimeReversibleCodon", "class:NonReversibleCodon"):
            n = 2  # with and without a non-standard genetic code
        if q and cost == "slow" and spec not in quick_slow:
            continue  # the other codon models (2-15 s to build, rebuilt on every channel) run in the thorough tier
        for _ in range(1 if q else (4 if cost != "slow" else 2)):
            cases.append({"kind": "batch", "family": "model", "spec": spec, "seed": rng.randrange(2**32), "n": n})
    for m in LF_MODELS_CHEAP:
        for v in ("plain", "scoped", "bins", "multi-locus"):
            batches(f"lf:{m}:{v}", 1, 3)
    for m in LF_MODELS_MEDIUM:
        batches(f"lf:{m}:plain", 1, 2)
        batches(f"lf:{m}:scoped", 1, 1)
    for m in LF_MODELS_SLOW[:2] if q else LF_MODELS_SLOW:
        for _ in range(1 if q else 3):
            cases.append({"kind": "batch", "family": f"lf:{m}:plain", "seed": rng.randrange(2**32), "n": 1, "deep": False, "depth": 1 if q else 2})
    batches("lf:BH:plain", 1, 3)
    return cases


def run_case(case):
    res = Result()
    kind = case["kind"]
    deep = case.get("deep", False)
    if kind == "registry":
        return run_registry(res)
    fam = case["family"]
    if kind == "one":
        seeds = [case["item_seed"]]
    elif kind == "batch":
        brng = random.Random(case["seed"])
        seeds = [brng.randrange(2**32) for _ in range(case["n"])]
    else:
        raise ValueError(kind)
    extra = {k: case[k] for k in ("deep", "depth") if k in case}
    for k, item_seed in enumerate(seeds):
        rng = random.Random(item_seed)
        rng.slot = case.get("slot", k)
        extra["slot"] = rng.slot
        if fam == "model":
            run_model(res, rng, item_seed, case["spec"])
        elif fam in SPECIAL:
            SPECIAL[fam](res, rng, item_seed)
        elif fam.startswith("lf:") and case.get("depth") is not None:
            drive(res, fam, item_seed, FAMILIES[fam](res, rng, deep, depth=case["depth"]), extra)
        else:
            drive(res, fam, item_seed, FAMILIES[fam](res, rng, deep), extra)
    return res


REQUIRED_FAMILIES = [
    "seq-old", "seq-new", "seq-array", "seqview", "seqsdata", "coll-old", "coll-new", "aln", "aln-array", "aligned", "tree",
    "tree-treenode", "table", "dictarray", "distancematrix", "alphabet-old", "moltype-old", "alphabet-new",
    "moltype-new", "indelmap", "featuremap", "anndb-basic", "anndb-gff", "anndb-genbank", "legacy-annotations",
    "notcompleted", "sequence-lf", "model", "result-generic", "result-tabular", "result-model",
    "result-model_collection", "result-hypothesis", "result-bootstrap",
]  # fmt: skip


def required(counters, tier):
    missing = []
    if not counters.get("registry-entries"):
        missing.append("the deserialiser registry was not walked")
    for k in counters:
        if k.startswith("concrete:"):
            cls = k[len("concrete:") :]
            if not counters.get("covered:" + cls):
                missing.append(f"no round trip of registered type {cls} (no producer)")
    for fam in REQUIRED_FAMILIES:
        if not counters.get("histories:" + fam):
            missing.append(f"no history of family {fam} was run")
    if not any(k.startswith("histories:lf:") for k in counters):
        missing.append("no likelihood function history was run")
    for ch in CHANNELS:
        if not any(k.startswith("roundtrip:") and k.endswith(":" + ch) for k in counters):
            missing.append(f"channel {ch} never used")
    return missing
