"""Harness-defined composable apps for C14.

They live in an importable module (not in the monitor) because composed apps are pickled to loky worker processes,
whose PYTHONPATH contains /verif.  Every step appends `start` / `finish` events to a JSONL history with single
O_APPEND writes, so the history is one totally ordered file whatever process wrote the line.

Nothing here decides anything: the steps only (a) realise a per-record *plan* (sleep, then succeed or fail in a given
way at a given step) and (b) record what they saw.

NOTE: no `from __future__ import annotations` here, define_app refuses string type hints.
"""

import json
import os
import time
from typing import Union

from cogent3.app.composable import LOADER, NotCompleted, define_app
from cogent3.app.typing import IdentifierType, SeqsCollectionType, SerialisableType

IN_SUFFIX = ".txt"

# typed steps return "dict or serialisable" so that they compose with both typed and untyped successors
DictOut = Union[dict, SerialisableType]


def emit(log, **ev):
    """one event = one line = one write(2) on an O_APPEND descriptor"""
    if not log:
        return
    line = (json.dumps(ev, sort_keys=True) + "\n").encode()
    fd = os.open(log, os.O_WRONLY | os.O_APPEND | os.O_CREAT, 0o644)
    try:
        os.write(fd, line)
    finally:
        os.close(fd)


def read_log(log):
    if not os.path.exists(log):
        return []
    out = []
    with open(log) as f:
        for line in f:
            out.append(json.loads(line))
    return out


# "subdirs" input layout: the same file name occurs once in each of these directories
GROUPS = {"grpA": "a", "grpB": "b"}


def key_of(identifier):
    """record key from an input identifier (path string, Path, DataMember): file name without the input suffix; in the
    subdirs layout (equal file names in different directories) the directory's letter is appended"""
    text = str(identifier)
    key = strip_suffix(os.path.basename(text))
    return key + GROUPS.get(os.path.basename(os.path.dirname(text)), "")


def strip_suffix(name):
    """the harness' own rule for an identifier: the file name with its trailing format suffix removed, or its trailing
    format suffix + compression suffix (.txt.gz); nothing else of the name is touched"""
    for sfx in (IN_SUFFIX + ".gz", IN_SUFFIX):
        if name.endswith(sfx):
            return name[: -len(sfx)]
    return name


# --- custom id_from_source functions for apply_to (each maps sources differently from get_unique_id) ------------------


def _src_text(x):
    return x.source if isinstance(x, Item) else str(x)


def _stem(x):
    return strip_suffix(os.path.basename(_src_text(x)))


def id_upper(x):
    return _stem(x).upper()


def id_tagged(x):
    """its own suffix rule: strips the input suffix and appends a version tag"""
    return _stem(x) + "_v2"


def id_dir_name(x):
    """directory + name, so that equal file names in different directories stay apart"""
    return os.path.basename(os.path.dirname(_src_text(x))) + "-" + _stem(x)


ID_FUNCS = {"upper": id_upper, "tagged": id_tagged, "dir-name": id_dir_name}


class PlannedError(Exception):
    """a harness-defined exception class (pickled by name from this module)"""


EXC_TYPES = {
    "ValueError": ValueError,
    "KeyError": KeyError,
    "OSError": OSError,
    "AssertionError": AssertionError,
    "StopIteration": StopIteration,
    "PlannedError": PlannedError,
    "RuntimeError": RuntimeError,
}


def exc_text(key):
    """the unique text an injected exception carries"""
    return f"boom-{key}"


def nc_text(key):
    return f"declined-{key}"


def wrong_value(variant, key, source):
    """a value whose class is not `dict`; carries the source name where the type allows it"""
    if variant == "str":
        return str(source)  # a str: get_data_source(str) is the file name, so the source survives
    if variant == "int":
        return 7
    if variant == "list-of-str":
        return [str(source), key]
    if variant == "set-of-str":
        return {str(source)}  # not JSON-serialisable: only a pickling writer can store it
    raise ValueError(variant)


def falsy_value(variant):
    return {"zero": 0, "empty-dict": {}, "empty-list": [], "empty-str": "", "false": False, "zero-float": 0.0}[variant]


def empty_value(variant, source):
    """a value that is FALSY (zero length) and still carries the source of the record"""
    if variant == "item":
        return Item(str(source), "", size=0)
    if variant == "seqs":
        from cogent3 import make_aligned_seqs

        aln = make_aligned_seqs({"a": "AC", "b": "AG"}, moltype="dna", info={"source": str(source)})
        return aln[2::3]  # what taking third codon positions of a 2-column alignment leaves: 0 columns
    raise ValueError(variant)


def pause(gate, delay):
    """schedule forcing.  Without a gate: plain sleep.  With a gate (a file the harness parent creates once the
    worker processes have all picked up a task, holding a CLOCK_MONOTONIC instant T0): wait for the gate, then until
    T0 + delay, so that completion instants do not depend on how long each worker process took to start."""
    if not gate:
        if delay:
            time.sleep(delay)
        return
    t_end = time.monotonic() + 40
    t0 = None
    while time.monotonic() < t_end:
        try:
            with open(gate) as f:
                t0 = float(f.read())
            break
        except (OSError, ValueError):
            time.sleep(0.003)
    if t0 is None:
        return
    wait = t0 + (delay or 0) - time.monotonic()
    if wait > 0:
        time.sleep(wait)


def _act(step, key, val, source, ok):
    """realise the plan of record `key` at this step; `ok` builds the success value"""
    emit(step.log, ev="start", key=key, step=step.pos, name=type(step).__name__, pid=os.getpid(), t=time.monotonic())
    try:
        p = step.plan.get(key) or {}
        if step.pos == 0:
            pause(step.gate, p.get("delay"))
        if p.get("at") == step.pos:
            mode = p["mode"]
            var = p.get("variant")
            if mode == "exc":
                if var == "ZeroDivisionError":
                    return 1 // 0
                raise EXC_TYPES[var](exc_text(key))
            if mode == "none":
                return None
            if mode == "nc":
                origin = step if var == "origin-instance" else "planned-origin"
                typ = "FAIL" if var != "type-custom" else "PLANNED"
                return NotCompleted(typ, origin, nc_text(key), source=val)
            if mode == "wrong":
                return wrong_value(var, key, source)
            if mode == "falsy":
                return falsy_value(var)
            if mode == "empty":
                return empty_value(var, source)
            if mode != "ok":
                raise RuntimeError(f"harness: unknown mode {mode}")
        return ok()
    finally:
        emit(step.log, ev="finish", key=key, step=step.pos, name=type(step).__name__, pid=os.getpid(), t=time.monotonic())


def _stamp(val, name):
    """the success transformation of a generic step: extend the trail (new dict, input untouched)"""
    out = dict(val)
    out["trail"] = list(val.get("trail", [])) + [name]
    return out


class _Base:
    def __init__(self, pos=0, plan=None, log=None, gate=None):
        self.pos = pos
        self.plan = plan or {}
        self.log = log
        self.gate = gate


@define_app(app_type=LOADER)
class c14_load(_Base):
    """reads the input file (path string, Path or DataMember) into the payload dict"""

    def __init__(self, pos=0, plan=None, log=None, gate=None):
        _Base.__init__(self, pos, plan, log, gate)

    def main(self, path: IdentifierType) -> DictOut:
        key = key_of(path)

        def ok():
            if hasattr(path, "read"):
                text = path.read()
            elif str(path).endswith(".gz"):
                import gzip

                with gzip.open(str(path), "rt") as f:
                    text = f.read()
            else:
                text = open(str(path)).read()
            data = json.loads(text)
            data["source"] = str(path)
            data["trail"] = ["c14_load"]
            return data

        return _act(self, key, path, path, ok)


def _generic_main(self, val, ok=None):
    if not isinstance(val, dict) or "key" not in val:
        # falsy-but-valid / untyped values from an earlier step: nothing to plan on, hand on unchanged
        emit(self.log, ev="opaque", step=self.pos, name=type(self).__name__, pid=os.getpid(), cls=type(val).__name__)
        return val
    ok = ok or (lambda: _stamp(val, type(self).__name__))
    return _act(self, val["key"], val, val.get("source"), ok)


def dna_of(payload):
    """the payload token (hex) as a DNA string, two nucleotides per hex digit"""
    return "".join("ACGT"[int(c, 16) // 4] + "ACGT"[int(c, 16) % 4] for c in payload)


def to_seqs(val):
    from cogent3 import make_unaligned_seqs

    return make_unaligned_seqs({val["key"]: dna_of(val["payload"])}, moltype="dna", info={"source": val["source"]})


@define_app
class c14_alpha(_Base):
    """dict -> dict (typed: rejects anything that is not a dict)"""

    def __init__(self, pos=0, plan=None, log=None, gate=None):
        _Base.__init__(self, pos, plan, log, gate)

    def main(self, val: dict) -> DictOut:
        return _generic_main(self, val)


@define_app
class c14_beta(_Base):
    """dict -> dict (typed)"""

    def __init__(self, pos=0, plan=None, log=None, gate=None):
        _Base.__init__(self, pos, plan, log, gate)

    def main(self, val: dict) -> DictOut:
        return _generic_main(self, val)


@define_app
class c14_gamma(_Base):
    """anything serialisable -> anything serialisable (untyped: accepts wrong-typed and falsy values)"""

    def __init__(self, pos=0, plan=None, log=None, gate=None):
        _Base.__init__(self, pos, plan, log, gate)

    def main(self, val: SerialisableType) -> SerialisableType:
        return _generic_main(self, val)


@define_app(skip_not_completed=False)
class c14_watch(_Base):
    """untyped observer that asks to see NotCompleted values: records what passes, returns it unchanged"""

    def __init__(self, pos=0, plan=None, log=None, gate=None):
        _Base.__init__(self, pos, plan, log, gate)

    def main(self, val: SerialisableType) -> SerialisableType:
        if isinstance(val, NotCompleted):
            emit(
                self.log,
                ev="saw-nc",
                step=self.pos,
                pid=os.getpid(),
                type=val.type,
                origin=val.origin,
                message=val.message,
                source=val.source,
            )
            return val
        return _generic_main(self, val)


@define_app
class c14_to_seqs(_Base):
    """dict -> sequence collection (typed); the last step in front of write_seqs"""

    def __init__(self, pos=0, plan=None, log=None, gate=None):
        _Base.__init__(self, pos, plan, log, gate)

    def main(self, val: dict) -> SeqsCollectionType:
        return _generic_main(self, val, ok=lambda: to_seqs(val))


# --- apps defined from FUNCTIONS, configured with mutable arguments which they mutate in place -------------------------
# define_app copies the configured arguments for every call, so what one record does to them must never show up in
# another record: the result depends on the record only.

FN_CFG = {"bucket": ["seed"], "memo": {"m": 0}, "marks": ["s"], "table": {"t": 0}, "order": ["o"]}


@define_app
def c14_fn_mut(val: dict, bucket: list, memo: dict = None, marks: set = None, pos: int = 0, log: str = None) -> DictOut:
    """configured with a positional list, a keyword dict and a keyword set; mutates all three"""
    if not isinstance(val, dict) or "key" not in val:
        emit(log, ev="opaque", step=pos, name="c14_fn_mut", pid=os.getpid(), cls=type(val).__name__)
        return val
    key = val["key"]
    emit(log, ev="start", key=key, step=pos, name="c14_fn_mut", pid=os.getpid(), t=time.monotonic())
    try:
        bucket.append(key)
        memo[key] = len(memo)
        marks.add(key)
        out = _stamp(val, "c14_fn_mut")
        out["cfg"] = {"bucket": list(bucket), "memo": dict(memo), "marks": sorted(marks)}
        return out
    finally:
        emit(log, ev="finish", key=key, step=pos, name="c14_fn_mut", pid=os.getpid(), t=time.monotonic())


@define_app
def c14_fn_kw(val: dict, table: dict, order: list = None, pos: int = 0, log: str = None) -> DictOut:
    """configured with a positional dict and a keyword list; mutates both"""
    if not isinstance(val, dict) or "key" not in val:
        emit(log, ev="opaque", step=pos, name="c14_fn_kw", pid=os.getpid(), cls=type(val).__name__)
        return val
    key = val["key"]
    emit(log, ev="start", key=key, step=pos, name="c14_fn_kw", pid=os.getpid(), t=time.monotonic())
    try:
        table[key] = len(table)
        order.insert(0, key)
        out = _stamp(val, "c14_fn_kw")
        out["cfg2"] = {"table": dict(table), "order": list(order)}
        return out
    finally:
        emit(log, ev="finish", key=key, step=pos, name="c14_fn_kw", pid=os.getpid(), t=time.monotonic())


def fn_expected(step, key):
    """what a function step adds to a record, whatever was processed before it (the model of 'called alone')"""
    if step == "fn":
        return "cfg", {"bucket": FN_CFG["bucket"] + [key], "memo": {**FN_CFG["memo"], key: len(FN_CFG["memo"])}, "marks": sorted(FN_CFG["marks"] + [key])}
    return "cfg2", {"table": {**FN_CFG["table"], key: len(FN_CFG["table"])}, "order": [key] + FN_CFG["order"]}


GENERIC = {"alpha": c14_alpha, "beta": c14_beta, "gamma": c14_gamma, "watch": c14_watch, "seqs": c14_to_seqs, "fn": c14_fn_mut, "fn2": c14_fn_kw}
TYPED = {"alpha", "beta", "seqs", "fn", "fn2"}
PLANLESS = {"fn", "fn2"}  # steps that take no plan: never the planned failing step


def build_chain(steps, plan, log, gate=None):
    """loader + generic steps (names from GENERIC); returns (composed app, [class names by position])"""
    app = c14_load(pos=0, plan=plan, log=log, gate=gate)
    names = ["c14_load"]
    for i, s in enumerate(steps, start=1):
        if s == "fn":
            nxt = c14_fn_mut(list(FN_CFG["bucket"]), memo=dict(FN_CFG["memo"]), marks=set(FN_CFG["marks"]), pos=i, log=log)
        elif s == "fn2":
            nxt = c14_fn_kw(dict(FN_CFG["table"]), order=list(FN_CFG["order"]), pos=i, log=log)
        else:
            nxt = GENERIC[s](pos=i, plan=plan, log=log)
        names.append(type(nxt).__name__)
        app = app + nxt
    return app, names


# --- inputs for the as_completed entry point that are not identifiers ------------------------------------------------


@define_app
class c14_scale:
    """int/float/list/dict -> value tagged with what it got; used with in-memory inputs (no loader)"""

    def __init__(self, plan=None, log=None, gate=None):
        self.plan = plan or {}
        self.log = log
        self.gate = gate

    def main(self, val: SerialisableType) -> SerialisableType:
        emit(self.log, ev="start", key=repr(val), step=0, name="c14_scale", pid=os.getpid(), t=time.monotonic())
        try:
            p = self.plan.get(repr(val)) or {}
            pause(self.gate, p.get("delay"))
            if p.get("mode") == "exc":
                raise ValueError(exc_text(repr(val)))
            return {"got": val, "cls": type(val).__name__}
        finally:
            emit(self.log, ev="finish", key=repr(val), step=0, name="c14_scale", pid=os.getpid(), t=time.monotonic())


class Item:
    """an in-memory input that carries its own source (so cogent3 does not wrap it in a source_proxy)"""

    def __init__(self, source, payload, size=1):
        self.source = source
        self.payload = payload
        self.size = size

    def __len__(self):
        return self.size

    def to_rich_dict(self):
        return {"source": self.source, "payload": self.payload, "size": self.size}


@define_app
class c14_item_step:
    """Item -> Item (keeps the source attribute)"""

    def __init__(self, plan=None, log=None, gate=None):
        self.plan = plan or {}
        self.log = log
        self.gate = gate
        self.pos = 0

    def main(self, val: Item) -> Union[Item, SerialisableType]:
        key = key_of(val.source)
        emit(self.log, ev="start", key=key, step=0, name="c14_item_step", pid=os.getpid(), t=time.monotonic())
        try:
            p = self.plan.get(key) or {}
            pause(self.gate, p.get("delay"))
            if p.get("mode") == "exc" and p.get("at", 0) == 0:
                raise ValueError(exc_text(key))
            if p.get("mode") in ("strip", "exc"):
                # a perfectly valid result that simply has no source of its own
                return {"key": key, "payload": val.payload + "+", "trail": ["c14_item_step"]}
            return Item(val.source, val.payload + "+", val.size)
        finally:
            emit(self.log, ev="finish", key=key, step=0, name="c14_item_step", pid=os.getpid(), t=time.monotonic())


# --- a plain function for cogent3.util.parallel called on its own ------------------------------------------------------


def par_task(x, nap=True):
    """(input, a value derived from it); every 5th input takes a little longer"""
    if nap and x % 5 == 0:
        time.sleep(0.03)
    return (x, x * x + 1)
