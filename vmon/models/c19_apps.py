"""Harness-side definitions for C19: the write operations that get fault-injected, and the resume driver.

Imported inside driver subprocesses (`python -m vmon.faults`, `python -m vmon.models.c19_apps`) which have
PYTHONPATH=/verif.  Only *calls* cogent3; it contains no oracle.
"""

import json
import os
import sys

SUFFIX = {"plain": "", "gz": ".gz", "bz2": ".bz2", "zip": ".zip"}

# writer name -> (object kind, file suffix, keyword arguments of the write call)
SEQ_OBJS = ["aln", "arr", "sc", "nsc"]
SEQ_FORMATS = ["fasta", "phylip", "paml", "gde", "json"]
WRITERS = {}
for _o in SEQ_OBJS:
    for _f in SEQ_FORMATS:
        WRITERS[f"{_o}-{_f}"] = ("seqs", _o, _f)
for _f in ["nwk", "xml", "json"]:
    WRITERS[f"tree-{_f}"] = ("tree", "tree", _f)
for _f in ["tsv", "csv", "json", "pickle", "rst", "md", "tex", "html", "txt"]:
    WRITERS[f"table-{_f}"] = ("table", "table", _f)
for _f in ["tsv", "csv"]:
    WRITERS[f"da-{_f}"] = ("dictarray", "da", _f)
WRITERS["tc-trees"] = ("treecollection", "tc", "trees")


def targets_for(writer):
    fam = WRITERS[writer][0]
    if fam == "table":
        # Table.write appends ".gz" to any other compression suffix; only plain and gz name the destination given
        return ["plain"] if writer == "table-pickle" else ["plain", "gz"]
    return ["plain", "gz", "bz2", "zip"]


FAILS = {
    # formatting failures (the "handled failure" class): fail name -> family
    "seqs-unknown-format": "seqs",
    "seqs-bad-order": "seqs",
    "seqs-json-unserialisable": "seqs",
    "nsc-unknown-format": "seqs",
    "tree-json-unserialisable": "tree",
    "table-writer-callback": "table",
    "table-writer-callback-raises": "table",
    "table-bedgraph-wrong-columns": "table",
    "table-json-unserialisable": "table",
    "table-pickle-compressed": "table",
    "table-csv-row-fails-midway": "table",
    "da-unknown-format": "dictarray",
    "tc-not-a-tree": "treecollection",
    "tree-xml-array-param": "tree",
    "tree-xml-too-deep": "tree",
}

# data-store writer apps whose serialisation step gets a failpoint: app name -> (object kind, method of the object
# the app calls to serialise it, keyword arguments of the app)
APP_WRITERS = {
    "write_seqs": ("sc", "to_dict", {"format": "fasta"}, "fasta"),
    "write_json": ("aln", "to_rich_dict", {}, "json"),
    "write_tabular": ("table", "to_string", {"format": "tsv"}, "tsv"),
}


class FailpointError(Exception):
    """raised by the harness inside the formatter / serialiser a writer calls"""


class ReportedNotCompleted(Exception):
    """a writer app reported the failure the app way: it returned a NotCompleted"""


class FailpointNotReached(Exception):
    """harness error: the wrapped formatter was never called by the write"""


def failpoints_for(writer):
    """names of the formatter failpoints that exist for a writer"""
    fam, kind, fmt = WRITERS[writer]
    if fam == "treecollection":
        return ["formatter", "formatter-2nd-call"]
    if fam == "table" and fmt in ("tsv", "csv"):
        return ["formatter", "formatter-2nd-call"]  # csv rows: first row / second row
    return ["formatter"]


def _formatter_target(fam, kind, fmt, obj):
    """(container, attribute / key, is dict item) of the function the write route calls to format obj"""
    if fam == "seqs":
        if fmt == "json":
            return type(obj), "to_json", False
        from cogent3.format.alignment import FORMATTERS

        return FORMATTERS, fmt, True
    if fam == "tree":
        return type(obj), {"nwk": "get_newick", "xml": "get_xml", "json": "to_json"}[fmt], False
    if fam == "table":
        if fmt == "json":
            return type(obj), "to_json", False
        if fmt == "pickle":
            return type(obj), "__getstate__", False
        if fmt in ("tsv", "csv"):
            return None, "csv-rows", False
        return type(obj), "to_string", False
    if fam == "dictarray":
        return type(obj), "to_string", False
    if fam == "treecollection":
        return type(obj[0][1]), "get_newick", False
    raise ValueError(fam)


class _Patch:
    """replace a class attribute / dict item by a wrapper that raises at its n-th call; undone on exit"""

    def __init__(self, container, name, is_item, nth):
        self.container, self.name, self.is_item, self.nth = container, name, is_item, nth
        self.calls = 0
        self.fired = False

    def _wrap(self, orig):
        def failing(*a, **kw):
            self.calls += 1
            if self.calls == self.nth:
                self.fired = True
                raise FailpointError(f"failpoint in {self.name}")
            return orig(*a, **kw)

        return failing

    def __enter__(self):
        if self.container is None:
            # csv rows: the table hands its rows to csv.writer(...).writerow/writerows
            import csv

            self.orig = csv.writer
            patch = self

            class _W:
                def __init__(self, *a, **kw):
                    self._w = patch.orig(*a, **kw)

                def writerow(self, row):
                    patch.calls += 1
                    if patch.calls == patch.nth:
                        patch.fired = True
                        raise FailpointError("failpoint in csv row formatting")
                    return self._w.writerow(row)

                def writerows(self, rows):
                    for r in rows:
                        self.writerow(r)

            csv.writer = _W
            return self
        if self.is_item:
            self.orig = self.container[self.name]
            self.container[self.name] = self._wrap(self.orig)
        else:
            self.had = self.name in vars(self.container)
            self.orig = getattr(self.container, self.name)
            setattr(self.container, self.name, self._wrap(self.orig))
        return self

    def __exit__(self, *exc):
        if self.container is None:
            import csv

            csv.writer = self.orig
        elif self.is_item:
            self.container[self.name] = self.orig
        elif self.had:
            setattr(self.container, self.name, self.orig)
        else:
            delattr(self.container, self.name)
        return False


class FailpointOp:
    """obj.write(path) while the formatter the route calls raises FailpointError (harness failpoint)"""

    def __init__(self, desc):
        self.desc = desc
        self.pre = bool(desc.get("pre"))
        self.old = b"PREVIOUS CONTENT line 1\nPREVIOUS CONTENT line 2\n"
        self.fam, kind, self.fmt = WRITERS[desc["writer"]]
        self.obj = build(kind, "small", self.fmt)
        self.dest = f"out.{self.fmt}{SUFFIX[desc['target']]}"
        self.kwargs = {"format": "simple"} if self.fam == "table" and self.fmt == "txt" else {}
        self.nth = 2 if desc["failpoint"].endswith("2nd-call") else 1
        self.kind = kind

    def setup(self, d):
        if self.pre:
            with open(os.path.join(d, self.dest), "wb") as f:
                f.write(self.old)

    def run(self, d):
        container, name, is_item = _formatter_target(self.fam, self.kind, self.fmt, self.obj)
        with _Patch(container, name, is_item, self.nth) as p:
            self.obj.write(os.path.join(d, self.dest), **self.kwargs)
        if not p.fired:
            raise FailpointNotReached(f"{name} was called {p.calls} times by {self.desc}")


class AppFailpointOp:
    """a data-store writer app is called while the serialisation method it uses raises FailpointError"""

    def __init__(self, desc):
        self.desc = desc
        self.pre = bool(desc.get("pre"))
        kind, self.method, self.app_kw, self.suffix = APP_WRITERS[desc["app"]]
        self.obj = build(kind, "small")
        self.dest = "store"
        self.ident = f"member.{self.suffix}"

    def setup(self, d):
        # a directory store with one member (harness-side: plain files in the layout the store uses)
        store = os.path.join(d, self.dest)
        for sub in ("", "not_completed", "logs", "md5"):
            os.makedirs(os.path.join(store, sub), exist_ok=True)
        import hashlib

        for name in ["other"] + (["member"] if self.pre else []):
            data = f"PREVIOUS CONTENT of {name}\n"
            with open(os.path.join(store, f"{name}.{self.suffix}"), "w") as f:
                f.write(data)
            with open(os.path.join(store, "md5", f"{name}.txt"), "w") as f:
                f.write(hashlib.md5(data.encode()).hexdigest())

    def run(self, d):
        from cogent3 import get_app, open_data_store

        ds = open_data_store(os.path.join(d, self.dest), suffix=self.suffix, mode="w" if self.pre else "a")
        writer = get_app(self.desc["app"], data_store=ds, **self.app_kw)
        with _Patch(type(self.obj), self.method, False, 1) as p:
            got = writer(self.obj, identifier=self.ident)
        if not p.fired:
            raise FailpointNotReached(f"{self.method} was not called by {self.desc}")
        if type(got).__name__ == "NotCompleted":
            raise ReportedNotCompleted(str(got.message)[-200:])


def _seq_data(size, aligned):
    import random

    rng = random.Random(7)
    n = 6 if size == "small" else 9000
    base = "".join(rng.choice("ACGT") for _ in range(n))
    out = {}
    for i in range(3 if size == "small" else 5):
        s = list(base)
        for j in range(0, n, 3 + i):
            s[j] = "-" if aligned and (j // 3) % 4 == i % 4 and j % 600 < 12 else rng.choice("ACGT")
        s = "".join(s)
        if not aligned:
            s = s.replace("-", "")[: n - i]
        out[f"seq{i}"] = s
    return out


def build(kind, size="small", fmt=None):
    """the object that gets written (built before any fault is armed)"""
    import numpy
    from cogent3 import make_aligned_seqs, make_table, make_tree, make_unaligned_seqs

    if kind == "aln":
        return make_aligned_seqs(_seq_data(size, True), moltype="dna", array_align=False)
    if kind == "arr":
        return make_aligned_seqs(_seq_data(size, True), moltype="dna", array_align=True)
    if kind == "sc":
        return make_unaligned_seqs(_seq_data(size, False), moltype="dna")
    if kind == "nsc":
        return make_unaligned_seqs(_seq_data(size, False), moltype="dna", new_type=True)
    if kind == "tree":
        if size == "small":
            return make_tree("((a:1,b:2)ab:0.5,c:3,(d:1.5,e:0.25)de:1);")
        # PhyloNode.write hands the xml text to writelines(), i.e. character by character: keep that one modest
        names = [f"taxon_number_{i:05d}" for i in range(40 if fmt == "xml" else 900)]
        nw = names[0] + ":0.1"
        for i, nm in enumerate(names[1:]):
            nw = f"({nw},{nm}:0.{i % 9 + 1})n{i}:0.05"
        return make_tree(nw + ";")
    if kind == "table":
        nrow = 3 if size == "small" else 2500
        rows = [[i, i * 1.5, f"cell {i}, with comma" if i % 2 else f"c{i}"] for i in range(nrow)]
        return make_table(header=["num", "val", "txt"], data=rows, title="a title", legend="a legend")
    if kind == "da":
        from cogent3.util.dict_array import DictArrayTemplate

        r, c = (2, 3) if size == "small" else (60, 60)
        return DictArrayTemplate([f"r{i}" for i in range(r)], [f"c{i}" for i in range(c)]).wrap(
            numpy.arange(r * c).reshape(r, c) * 1.25
        )
    if kind == "tc":
        from cogent3.phylo.tree_collection import LogLikelihoodScoredTreeCollection

        n = 2 if size == "small" else 600
        t1 = make_tree("((a:1,b:2):0.5,c:3,d:1.5);")
        t2 = make_tree("((a:1,c:2):0.5,b:3,d:1.5);")
        return LogLikelihoodScoredTreeCollection([(-10.0 - i, (t1, t2)[i % 2]) for i in range(n)])
    raise ValueError(kind)


class Op:
    """one write call: obj.write(<dir>/<dest>, ...)"""

    def __init__(self, desc):
        self.desc = desc
        self.pre = bool(desc.get("pre"))
        self.old = desc.get("old", "PREVIOUS CONTENT line 1\nPREVIOUS CONTENT line 2\n").encode()
        fail = desc.get("fail")
        size = desc.get("size", "small")
        self.kwargs = {}
        self.fmt_kw = None
        if fail:
            self._init_fail(fail, desc.get("target", "plain"))
            return
        fam, kind, fmt = WRITERS[desc["writer"]]
        self.obj = build(kind, size, fmt)
        self.dest = f"out.{fmt}{SUFFIX[desc['target']]}"
        if fam == "table" and fmt == "txt":
            self.kwargs = {"format": "simple"}

    def _init_fail(self, fail, target):
        sfx = SUFFIX[target]
        if fail == "seqs-unknown-format":
            self.obj = build("aln")
            self.dest = "out.fasta" + sfx
            self.kwargs = {"format": "nope"}
        elif fail == "seqs-bad-order":
            self.obj = build("arr")
            self.dest = "out.fasta" + sfx
            self.kwargs = {"order": ["not-a-name"]}
        elif fail == "nsc-unknown-format":
            self.obj = build("nsc")
            self.dest = "out.fasta" + sfx
            self.kwargs = {"file_format": "nope"}
        elif fail == "seqs-json-unserialisable":
            self.obj = build("aln")
            self.obj.info["unserialisable"] = {1, 2}
            self.dest = "out.json" + sfx
        elif fail == "tree-json-unserialisable":
            self.obj = build("tree")
            self.obj.params["unserialisable"] = {1, 2}
            self.dest = "out.json" + sfx
        elif fail == "table-writer-callback":
            self.obj = build("table")
            self.dest = "out.tsv" + sfx
            self.kwargs = {"writer": _row_writer}
        elif fail == "table-writer-callback-raises":
            self.obj = build("table")
            self.dest = "out.tsv" + sfx
            self.kwargs = {"writer": _raising_writer}
        elif fail == "table-bedgraph-wrong-columns":
            self.obj = build("table")
            self.dest = "out.bedgraph" + sfx
        elif fail == "table-json-unserialisable":
            from cogent3 import make_table

            self.obj = make_table(header=["a", "b"], data=[[1, {1, 2}], [3, {3}]])
            self.dest = "out.json" + sfx
        elif fail == "table-pickle-compressed":
            self.obj = build("table")
            self.dest = "out.pickle.gz"
        elif fail == "table-csv-row-fails-midway":
            from cogent3 import make_table

            self.obj = make_table(header=["a", "b"], data=[[1, "x"], [2, _Unprintable()], [3, "z"]])
            self.dest = "out.csv" + sfx
        elif fail == "da-unknown-format":
            self.obj = build("da")
            self.dest = "out.tsv" + sfx
            self.kwargs = {"format": "nope"}
        elif fail == "tree-xml-array-param":
            import numpy

            self.obj = build("tree")
            self.obj.get_node_matching_name("a").params["arr"] = numpy.array([1.0, 2.0])
            self.dest = "out.xml" + sfx
        elif fail == "tree-xml-too-deep":
            from cogent3.core.tree import PhyloNode

            root = cur = PhyloNode(name="root")
            for i in range(3000):
                c = PhyloNode(name=f"n{i}", length=1.0)
                cur.append(c)
                cur.append(PhyloNode(name=f"t{i}", length=1.0))
                cur = c
            self.obj = root
            self.dest = "out.xml" + sfx
        elif fail == "tc-not-a-tree":
            self.obj = build("tc")
            self.obj.append((-99.0, "not a tree"))
            self.dest = "out.trees" + sfx
        else:
            raise ValueError(fail)

    def setup(self, d):
        destdir = self.desc.get("destdir")
        if destdir:
            # the destination path is an existing directory (empty / holding a file and a sub-directory)
            p = os.path.join(d, self.dest)
            os.mkdir(p)
            if destdir == "nonempty":
                with open(os.path.join(p, "keep.txt"), "wb") as f:
                    f.write(b"kept\n")
                os.mkdir(os.path.join(p, "sub"))
                with open(os.path.join(p, "sub", "inner.txt"), "wb") as f:
                    f.write(b"inner\n")
            return
        if self.pre:
            with open(os.path.join(d, self.dest), "wb") as f:
                f.write(self.old)

    def run(self, d):
        self.obj.write(os.path.join(d, self.dest), **self.kwargs)


class _Unprintable:
    def __str__(self):
        raise ValueError("cell cannot be formatted")

    __repr__ = __str__


def _row_writer(rows, has_header=False):
    return ["\t".join(str(c) for c in r) for r in rows]


def _raising_writer(rows, has_header=False):
    raise ValueError("writer callback fails")


def make_op(desc):
    if desc.get("app"):
        return AppFailpointOp(desc)
    if desc.get("failpoint"):
        return FailpointOp(desc)
    return Op(desc)


# ---------------------------------------------------------------------------
# resume driver


def _define_tag(serialisable=False):
    from cogent3.app.composable import define_app
    from cogent3.app.typing import SerialisableType, UnalignedSeqsType

    ret = SerialisableType if serialisable else UnalignedSeqsType

    @define_app
    class c19_tag:
        """renames the sequences; logs each execution; dies at its kill_at-th execution; fails for ids with 'bad'"""

        def __init__(self, counter_file=None, kill_at=None, transient=False):
            self.counter_file = counter_file
            self.kill_at = kill_at
            self.transient = transient

        def main(self, seqs: UnalignedSeqsType) -> ret:
            src = str(seqs.info.source)
            if self.counter_file:
                with open(self.counter_file, "a") as f:
                    f.write(os.path.basename(src) + "\n")
                with open(self.counter_file) as f:
                    n = sum(1 for _ in f)
                if self.kill_at is not None and n == self.kill_at:
                    os._exit(9)
            if "bad" in src:
                raise ValueError("bad input")
            if "flaky" in src and self.transient:
                raise ValueError("transient fault")
            return seqs.rename_seqs(lambda x: x + "_t")

    return c19_tag


def _store_dump(path, kind):
    """(id, record kind, content, md5 ok) for every member; plain reads through the store's public API"""
    from cogent3 import open_data_store
    from cogent3.app.data_store import get_text_hexdigest  # noqa: F401

    if kind == "dir":
        ds = open_data_store(path, suffix="fasta", mode="r")
    else:
        ds = open_data_store(path, mode="r")
    out = []
    loader = None

    def text(m, data):
        """store content as text: sqlite members hold serialised bytes, decoded with the store's own reader app"""
        nonlocal loader
        if isinstance(data, str):
            return data
        try:
            if loader is None:
                from cogent3 import get_app

                loader = get_app("load_db")
            obj = loader(m)
            rd = obj.to_rich_dict() if hasattr(obj, "to_rich_dict") else obj
            return json.dumps(rd, sort_keys=True, default=str)
        except Exception:  # noqa: BLE001
            import base64

            return "bytes:" + base64.b64encode(data).decode()

    for m in ds.completed:
        data = m.read()
        md5 = ds.md5(m.unique_id)
        ok = md5 == get_text_hexdigest(data)
        out.append([os.path.basename(str(m.unique_id)), "completed", text(m, data), ok])
    for m in ds.not_completed:
        data = text(m, m.read())
        try:
            d = json.loads(data)
            data = json.dumps({k: d.get(k) for k in ("type", "origin", "message", "source", "not_completed_construction")}, sort_keys=True)
        except Exception:  # noqa: BLE001
            pass
        out.append([os.path.basename(str(m.unique_id)), "not_completed", data, True])
    try:
        ds.close()
    except Exception:  # noqa: BLE001
        pass
    return sorted(out)


def _store_meta(path, kind):
    """store-level state, read without the library: sqlite3 / os only"""
    if kind == "dir":
        subdirs = sorted(e for e in os.listdir(path) if os.path.isdir(os.path.join(path, e)))
        logs = os.path.join(path, "logs")
        nlogs = len(os.listdir(logs)) if os.path.isdir(logs) else 0
        md5 = os.path.join(path, "md5")
        nmd5 = len(os.listdir(md5)) if os.path.isdir(md5) else 0
        top = sorted(e for e in os.listdir(path) if os.path.isfile(os.path.join(path, e)))
        nc = os.path.join(path, "not_completed")
        nnc = len(os.listdir(nc)) if os.path.isdir(nc) else 0
        return {"subdirs": subdirs, "has_log": nlogs > 0, "n_md5": nmd5, "n_completed_files": len(top), "n_not_completed_files": nnc}
    import sqlite3

    db = sqlite3.connect(f"file:{path}?mode=ro", uri=True)
    try:
        cur = db.execute("SELECT * FROM state")
        cols = [c[0] for c in cur.description]
        state = [{c: v for c, v in zip(cols, row) if "lock" not in c and "pid" not in c} for row in cur.fetchall()]
        counts = dict(db.execute("SELECT is_completed, COUNT(*) FROM results GROUP BY is_completed").fetchall())
        nlogs = db.execute("SELECT COUNT(*) FROM logs").fetchone()[0]
        tables = sorted(r[0] for r in db.execute("SELECT name FROM sqlite_master WHERE type='table'").fetchall())
    finally:
        db.close()
    return {"state": state, "n_completed": counts.get(1, 0), "n_not_completed": counts.get(0, 0), "has_log": nlogs > 0, "tables": tables}


def _listing(ds):
    """what the store object itself lists (its own, possibly cached, view)"""
    return {
        "completed": sorted(os.path.basename(str(m.unique_id)) for m in ds.completed),
        "not_completed": sorted(os.path.basename(str(m.unique_id)) for m in ds.not_completed),
    }


def _build(indir, out, kind, counter, kill_at, ids, mode, transient, kill_after_writes=None):
    from cogent3 import get_app, open_data_store

    tag = _define_tag(serialisable=kind != "dir")
    if kind == "dir":
        outds = open_data_store(out, suffix="fasta", mode=mode)
        writer = get_app("write_seqs", data_store=outds, format="fasta")
    else:
        outds = open_data_store(out, mode=mode)
        writer = get_app("write_db", data_store=outds)
    if kill_after_writes is not None:
        # the process ends right after the store accepted its n-th record (completed or not), before apply_to finishes
        state = {"n": 0}

        def counting(orig):
            def wrapped(*a, **kw):
                r = orig(*a, **kw)
                state["n"] += 1
                if state["n"] == kill_after_writes:
                    os._exit(9)
                return r

            return wrapped

        outds.write = counting(outds.write)
        outds.write_not_completed = counting(outds.write_not_completed)
    step = tag(counter_file=counter, kill_at=kill_at, transient=transient)
    app = get_app("load_unaligned", moltype="dna", format="fasta") + step + writer
    return app, step, outds


def _inputs(indir, ids):
    from cogent3 import open_data_store

    if ids is None:
        return open_data_store(indir, suffix="fasta", mode="r")
    # an ordered list of paths: the processing order is the harness's choice
    return [os.path.join(indir, name + ".fasta") for name in ids]


def _apply(indir, out, kind, counter, kill_at, logger, ids=None, kill_after_writes=None, mode="a", transient=False, listing_file=None):
    app, _, outds = _build(indir, out, kind, counter, kill_at, ids, mode, transient, kill_after_writes)
    got = app.apply_to(_inputs(indir, ids), show_progress=False, logger=None if logger else False)
    if listing_file:
        with open(listing_file, "w") as f:
            json.dump(_listing(got), f)
    _finish(outds)


def _finish(outds):
    """what a script does when it is done with a store: release the lock (sqlite) and close"""
    for name in ("unlock", "close"):
        try:
            getattr(outds, name)()
        except Exception:  # noqa: BLE001
            pass


def _apply_twice(indir, out, kind, c1, c2, logger, first_ids, ids, mode, transient_first, listing_file, mid_file):
    """the same app / store object is used for an apply_to on a prefix of the inputs and then on all of them"""
    app, step, outds = _build(indir, out, kind, c1, None, ids, mode, transient_first)
    app.apply_to(_inputs(indir, first_ids), show_progress=False, logger=None if logger else False)
    with open(mid_file, "w") as f:
        json.dump(_store_dump(out, kind), f)
    step.counter_file = c2
    step.transient = False
    got = app.apply_to(_inputs(indir, ids), show_progress=False, logger=None if logger else False)
    with open(listing_file, "w") as f:
        json.dump(_listing(got), f)
    _finish(outds)


def _forked(fn):
    """run fn in a forked child; returns exit status dict and (on exception) the description"""
    r, w = os.pipe()
    sys.stdout.flush()
    sys.stderr.flush()
    pid = os.fork()
    if pid == 0:
        code = 0
        try:
            os.close(r)
            import signal

            signal.alarm(120)
            try:
                fn()
            except BaseException as e:  # noqa: BLE001
                import traceback

                os.write(w, json.dumps({"type": type(e).__name__, "msg": str(e)[:300], "tb": traceback.format_exc()[-1500:]}).encode())
                code = 3
        finally:
            os._exit(code)
    os.close(w)
    chunks = []
    while True:
        b = os.read(r, 65536)
        if not b:
            break
        chunks.append(b)
    os.close(r)
    _, status = os.waitpid(pid, 0)
    st = {"signal": os.WTERMSIG(status)} if os.WIFSIGNALED(status) else {"exit": os.WEXITSTATUS(status)}
    exc = json.loads(b"".join(chunks)) if chunks else None
    return st, exc


def _load(p):
    if not os.path.exists(p):
        return None
    with open(p) as f:
        return json.load(f)


def _lines(p):
    if not os.path.exists(p):
        return []
    with open(p) as f:
        return [ln.strip() for ln in f if ln.strip()]


def resume_main(spec_path, out_path):
    """for one input set: uninterrupted run, then for every prefix k: run that dies at the k-th record + re-run"""
    import shutil
    import tempfile
    import warnings

    warnings.filterwarnings("ignore")
    import cogent3  # noqa: F401  (imported once; every run is a fork)

    spec = json.load(open(spec_path))
    base = tempfile.mkdtemp(dir=os.getcwd(), prefix="resume-")
    results = []
    try:
        for case in spec["cases"]:
            ids = case["ids"]
            kind = case["store"]
            logger = case.get("logger", False)
            work = tempfile.mkdtemp(dir=base, prefix="r-")
            indir = os.path.join(work, "in")
            os.mkdir(indir)
            for i, name in enumerate(ids):
                with open(os.path.join(indir, name + ".fasta"), "w") as f:
                    f.write(f">s1\nACGT{'A' * i}\n>s2\nAC{'G' * (i + 1)}\n")
            ext = "" if kind == "dir" else ".sqlitedb"
            ref_out = os.path.join(work, "ref" + ext)
            ref_counter = os.path.join(work, "ref.count")
            order = ids if case.get("ordered") else None
            mode1 = case.get("first_mode", "a")
            mode2 = case.get("second_mode", "a")
            ref_listing = os.path.join(work, "ref.listing")
            st, exc = _forked(lambda: _apply(indir, ref_out, kind, ref_counter, None, logger, ids=order, mode=mode1, listing_file=ref_listing))
            rec = {"case": case, "ref_status": st, "ref_exc": exc, "ref_order": _lines(ref_counter), "runs": []}
            if st == {"exit": 0}:
                rec["ref_store"] = _store_dump(ref_out, kind)
                rec["ref_meta"] = _store_meta(ref_out, kind)
                rec["ref_listing"] = _load(ref_listing)
                kills = [(k, None, None) for k in case["kills"]] + [(None, w, None) for w in case.get("kills_after_write", [])]
                kills += [(None, None, p) for p in case.get("partials", [])]
                for k, kw, part in kills:
                    tagk = f"k{k}" if k is not None else (f"w{kw}" if kw is not None else f"p{part}")
                    out = os.path.join(work, tagk + ext)
                    c1 = os.path.join(work, tagk + ".count1")
                    c2 = os.path.join(work, tagk + ".count2")
                    lf = os.path.join(work, tagk + ".listing")
                    run = {"k": k, "after_write": kw, "partial": part, "reuse": bool(case.get("reuse") and part is not None)}
                    if run["reuse"]:
                        # one process, one store object, two apply_to calls
                        mid = os.path.join(work, tagk + ".mid")
                        st2, exc2 = _forked(lambda: _apply_twice(indir, out, kind, c1, c2, logger, ids[:part], ids, mode2, True, lf, mid))
                        run.update(first_status={"exit": 0} if os.path.exists(mid) else st2, first_exc=None, first_executed=_lines(c1))
                        if os.path.exists(mid):
                            run["store_after_kill"] = _load(mid)
                    else:
                        first_ids = order if part is None else ids[:part]
                        st1, exc1 = _forked(lambda: _apply(indir, out, kind, c1, k, logger, ids=first_ids, kill_after_writes=kw, mode=mode1, transient=True))
                        run.update(first_status=st1, first_exc=exc1, first_executed=_lines(c1))
                        try:
                            run["store_after_kill"] = _store_dump(out, kind)
                        except Exception as e:  # noqa: BLE001
                            run["store_after_kill_error"] = f"{type(e).__name__}: {e}"[:300]
                        st2, exc2 = _forked(lambda: _apply(indir, out, kind, c2, None, logger, ids=order, mode=mode2, listing_file=lf))
                    run.update(second_status=st2, second_exc=exc2, second_executed=_lines(c2), returned_listing=_load(lf))
                    try:
                        run["store_final"] = _store_dump(out, kind)
                        run["meta_final"] = _store_meta(out, kind)
                    except Exception as e:  # noqa: BLE001
                        run["store_final_error"] = f"{type(e).__name__}: {e}"[:300]
                    rec["runs"].append(run)
            results.append(rec)
            shutil.rmtree(work, ignore_errors=True)
    finally:
        shutil.rmtree(base, ignore_errors=True)
    json.dump({"results": results}, open(out_path, "w"))
    return 0


if __name__ == "__main__":
    if sys.argv[1] == "resume":
        sys.exit(resume_main(sys.argv[2], sys.argv[3]))
