"""Shared workload generator and independent oracles for the likelihood properties (C02, C05, C11; reused by C07/C16/C10).

Nothing in the oracle part imports cogent3.evolve: trees are nested Python lists owned by the harness, leaves are
indicator vectors built from the harness's own IUPAC tables, rate matrices are rebuilt from the published
definitions, exponentials come from scipy.  The only things read from the model object are *layout* facts: the
order of its states and (for the empirical protein models and the CpG terms of the H04 family) its data table /
predicate mask, as stated in DESIGN.md.
"""

import itertools
import math

import numpy as np

# ---------------------------------------------------------------------------
# alphabets (own tables)

NUC_AMBIG = {
    "A": "A", "C": "C", "G": "G", "T": "T", "U": "T",
    "R": "AG", "Y": "CT", "W": "AT", "S": "CG", "K": "GT", "M": "AC",
    "B": "CGT", "D": "AGT", "H": "ACT", "V": "ACG", "N": "ACGT", "-": "ACGT", "?": "ACGT",
}  # fmt: skip
AA = "ACDEFGHIKLMNPQRSTVWY"
AA_AMBIG = {a: a for a in AA}
AA_AMBIG.update({"B": "DN", "Z": "EQ", "X": AA, "-": AA, "?": AA})
PUR, PYR = set("AG"), set("CT")
STANDARD_CODE = "FFLLSSSSYY**CC*WLLLLPPPPHHQQRRRRIIIMTTTTNNKKSSRRVVVVAAAADDEEGGGG"
NCBI_TABLES = {  # published NCBI translation tables (data), TCAG order
    1: STANDARD_CODE,
    2: "FFLLSSSSYY**CCWWLLLLPPPPHHQQRRRRIIMMTTTTNNKKSS**VVVVAAAADDEEGGGG",
    4: "FFLLSSSSYY**CCWWLLLLPPPPHHQQRRRRIIIMTTTTNNKKSSRRVVVVAAAADDEEGGGG",
    5: "FFLLSSSSYY**CCWWLLLLPPPPHHQQRRRRIIMMTTTTNNKKSSSSVVVVAAAADDEEGGGG",
    6: "FFLLSSSSYYQQCC*WLLLLPPPPHHQQRRRRIIIMTTTTNNKKSSRRVVVVAAAADDEEGGGG",
    9: "FFLLSSSSYY**CCWWLLLLPPPPHHQQRRRRIIIMTTTTNNNKSSSSVVVVAAAADDEEGGGG",
}


def codon_table(gc=1):
    t = NCBI_TABLES[gc]
    return {a + b + c: t[16 * i + 4 * j + k] for i, a in enumerate("TCAG") for j, b in enumerate("TCAG") for k, c in enumerate("TCAG")}


CODON_AA = codon_table(1)
SENSE = [c for c in CODON_AA if CODON_AA[c] != "*"]


def is_transition(a, b):
    return (a in PUR and b in PUR) or (a in PYR and b in PYR)


def compatible_states(symbol, states, kind):
    """indices of the model states compatible with an alignment symbol (motif-length string)"""
    if kind == "protein":
        ok = set(AA_AMBIG[symbol])
        return [i for i, s in enumerate(states) if s in ok]
    # nucleotide words (1, 2 or 3 long): Cartesian product of per-position sets
    sets = [set(NUC_AMBIG[ch]) for ch in symbol]
    return [i for i, s in enumerate(states) if all(s[p] in sets[p] for p in range(len(s)))]


# ---------------------------------------------------------------------------
# trees owned by the harness:  node = {"name": str, "length": float|None, "children": [...]}


def random_tree(rng, ntips, rooted=None, polytomy=0.2, lengths="loguniform", zero_frac=0.0, dyadic=False):
    nodes = [{"name": f"t{i}", "children": []} for i in range(ntips)]
    rng.shuffle(nodes)
    if rooted is None:
        rooted = rng.random() < 0.4
    k_root = 2 if rooted else 3
    if ntips <= k_root:
        k_root = ntips
    cnt = 0
    while len(nodes) > k_root:
        k = 3 if (rng.random() < polytomy and len(nodes) > k_root + 1) else 2
        sel = [nodes.pop(rng.randrange(len(nodes))) for _ in range(k)]
        cnt += 1
        nodes.append({"name": f"n{cnt}", "children": sel})
    if rng.random() < polytomy and len(nodes) == 3 and False:
        pass
    root = {"name": "root", "children": nodes, "length": None}

    def setlen(n):
        for c in n["children"]:
            if dyadic:
                c["length"] = rng.choice([0.0625, 0.125, 0.25, 0.5, 1.0, 2.0])
            elif rng.random() < zero_frac:
                c["length"] = 0.0
            else:
                c["length"] = round(math.exp(rng.uniform(math.log(1e-4), math.log(3.0))), 6)
            setlen(c)

    setlen(root)
    return root


def newick(node, with_lengths=True):
    def rec(n):
        s = n["name"] if not n["children"] else "(" + ",".join(rec(c) for c in n["children"]) + ")" + n["name"]
        if with_lengths and n.get("length") is not None:
            s += f":{n['length']!r}"
        return s

    return rec(node) + ";"


def tips(node):
    if not node["children"]:
        return [node["name"]]
    return [t for c in node["children"] for t in tips(c)]


def edges(node):
    out = []
    for c in node["children"]:
        out.append(c)
        out.extend(edges(c))
    return out


def shape_class(node):
    deg = [len(n["children"]) for n in [node] + edges(node) if n["children"]]
    return f"tips{len(tips(node))}-root{len(node['children'])}-{'poly' if any(d > 2 for d in deg[1:]) or deg[0] > 3 else 'bif'}"


# ---------------------------------------------------------------------------
# alignments


def random_alignment(rng, names, kind, ncols, ambig=0.0, motif_len=1, gc=1):
    if kind == "protein":
        base, amb = AA, "BZX-?"
        cols = [[rng.choice(amb) if rng.random() < ambig else rng.choice(base) for _ in names] for _ in range(ncols)]
    elif kind == "codon":
        CODON_AA = codon_table(gc)  # noqa: N806 - shadows the standard-code table for this alignment
        SENSE = [c for c in CODON_AA if CODON_AA[c] != "*"]  # noqa: N806
        cols = []
        for _ in range(ncols):
            col = []
            for _ in names:
                c = rng.choice(SENSE)
                if rng.random() < ambig:
                    r = rng.random()
                    if r < 0.3:
                        c = "---"
                    elif r < 0.5:
                        c = "NNN"
                    else:
                        p = rng.randrange(3)
                        for _try in range(10):
                            a = rng.choice("RYWSKMBDHVN?")  # a partly missing word ('A?C') is compatible with 4 words, not all
                            cand = c[:p] + a + c[p + 1 :]
                            # keep at least one compatible sense codon and no compatible stop (a symbol that can
                            # only be a stop, or may be one, is outside what the property quantifies over)
                            poss = ["".join(x) for x in itertools.product(*[NUC_AMBIG[ch] for ch in cand])]
                            if all(CODON_AA[x] != "*" for x in poss):
                                c = cand
                                break
                col.append(c)
            cols.append(col)
    else:
        amb = "RYWSKMBDHVN-?"
        cols = [["".join(rng.choice(amb) if rng.random() < ambig else rng.choice("ACGT") for _ in range(motif_len)) for _ in names] for _ in range(ncols)]
    # G: default motif probabilities are counted from the data when the alignment is attached, which needs at least
    # one unambiguous symbol per sequence set; make the first column canonical
    if cols and ambig:
        if kind == "protein":
            cols[0] = [rng.choice(AA) for _ in names]
        elif kind == "codon":
            cols[0] = [rng.choice([c for c, a in codon_table(gc).items() if a != "*"]) for _ in names]
        else:
            cols[0] = ["".join(rng.choice("ACGT") for _ in range(motif_len)) for _ in names]
    # a few duplicated columns so de-duplication/weights are exercised
    if ncols > 3 and rng.random() < 0.7:
        for _ in range(rng.randint(1, max(1, ncols // 3))):
            cols[rng.randrange(ncols)] = list(cols[rng.randrange(ncols)])
    return {nm: "".join(col[i] for col in cols) for i, nm in enumerate(names)}


def dirichlet(rng, n, low=0.05):
    v = np.array([rng.uniform(low, 1.0) for _ in range(n)])
    if rng.random() < 0.2:
        v[rng.randrange(n)] = 1e-3  # near-zero entry
    return v / v.sum()


# ---------------------------------------------------------------------------
# model catalogue

NUC_REV = ["JC69", "F81", "K80", "HKY85", "TN93", "GTR"]
NUC_NS = ["GN", "ssGN"]
CODON = ["MG94HKY", "MG94GTR", "GY94", "Y98", "CNFHKY", "CNFGTR", "H04G", "H04GK", "H04GGK", "GNC"]
PROTEIN = ["DSO78", "JTT92", "AH96", "AH96_mtmammals", "WG01"]
DINUC = ["DINUC_tuple", "DINUC_conditional", "DINUC_monomer", "DINUC_monomers", "DINUCGTR_conditional", "DINUCGTR_monomer", "DINUCGN_tuple"]  # user-built predicate models
USERCODON = ["CODON_monomers", "CODON_monomer", "CODON_conditional", "CODON_tuple"]  # user-built codon models (kappa, omega) per motif-prob model
SOLVED = ["F81_solved", "HKY85_solved", "TN93_solved"]  # closed-form P, rate_matrix_required=False
GTR_PAIRS = ["A/C", "A/G", "A/T", "C/G", "C/T"]
GTR_PAIRS_XY = ["AC", "AG", "AT", "CG", "CT"]
GN_PARS = [f"{f}>{t}" for f, t in itertools.permutations("ACTG", 2) if not (f == "T" and t == "G")]
SSGN_GROUPS = {
    "(A>G | T>C)": [("A", "G"), ("T", "C")],
    "(A>T | T>A)": [("A", "T"), ("T", "A")],
    "(C>G | G>C)": [("C", "G"), ("G", "C")],
    "(C>T | G>A)": [("C", "T"), ("G", "A")],
    "(G>T | C>A)": [("G", "T"), ("C", "A")],
}
STATIONARY = set(NUC_REV + USERCODON + SOLVED + ["MG94HKY", "MG94GTR", "GY94", "Y98", "CNFHKY", "CNFGTR", "H04G", "H04GK", "H04GGK"] + PROTEIN + [m for m in DINUC if m != "DINUCGN_tuple"])
REVERSIBLE = set(STATIONARY)


def kind_of(model):
    if model in NUC_REV or model in NUC_NS or model in SOLVED:
        return "nuc"
    if model in CODON or model in USERCODON:
        return "codon"
    if model in PROTEIN:
        return "protein"
    if model in DINUC:
        return "dinuc"
    raise KeyError(model)


def rate_param_names(model):
    if model in SOLVED:
        return rate_param_names(model.split("_")[0])
    if model in USERCODON:
        return ["kappa", "omega"]
    if model in ("JC69", "F81") or model in PROTEIN:
        return []
    if model.startswith("DINUCGTR"):
        return list(GTR_PAIRS)
    if model == "DINUCGN_tuple":
        return list(GN_PARS)
    if model in ("K80", "HKY85") or model in DINUC:
        return ["kappa"]
    if model == "TN93":
        return ["kappa_r", "kappa_y"]
    if model == "GTR":
        return list(GTR_PAIRS)
    if model == "GN":
        return list(GN_PARS)
    if model == "ssGN":
        return list(SSGN_GROUPS)
    if model in ("MG94HKY", "CNFHKY", "GY94", "Y98"):
        return ["kappa", "omega"]
    if model in ("MG94GTR", "CNFGTR"):
        return GTR_PAIRS + ["omega"]
    if model == "H04G":
        return ["G", "kappa", "omega"]
    if model == "H04GK":
        return ["G.K", "kappa", "omega"]
    if model == "H04GGK":
        return ["G", "G.K", "kappa", "omega"]
    if model == "GNC":
        return GN_PARS + ["omega"]
    raise KeyError(model)


def mprob_kind(model):
    """what the model's 'motif probs' are over: 'fixed-equal', 'states', 'monomer'"""
    if model in ("JC69", "K80"):
        return "fixed-equal"
    if model in ("MG94HKY", "MG94GTR", "DINUC_monomer", "DINUCGTR_monomer", "CODON_monomer"):
        return "monomer"
    if model in ("DINUC_monomers", "CODON_monomers"):
        return "monomers"  # one monomer distribution per position of the word
    return "states"


_MODEL_CACHE = {}


def make_model(model, **kw):
    """the real substitution model object (cached per worker: building a codon model's predicate masks costs ~2 s;
    a model object is immutable configuration shared by the likelihood functions made from it)"""
    key = (model, tuple(sorted(kw.items())))
    if key not in _MODEL_CACHE:
        _MODEL_CACHE[key] = _make_model(model, **kw)
    return _MODEL_CACHE[key]


def _make_model(model, **kw):
    from cogent3 import get_model

    if model in SOLVED:
        return get_model(model.split("_")[0], rate_matrix_required=False, **kw)
    if model in USERCODON:
        from cogent3.evolve.substitution_model import TimeReversibleCodon

        return TimeReversibleCodon(predicates=["kappa", "omega"], mprob_model=model.split("_")[1], name=model, recode_gaps=True, model_gaps=False, **kw)

    if model in DINUC:
        from cogent3.evolve.ns_substitution_model import NonReversibleDinucleotide
        from cogent3.evolve.predicate import MotifChange
        from cogent3.evolve.substitution_model import TimeReversibleDinucleotide

        fam, mp = model.split("_")
        if fam == "DINUCGN":
            preds = [MotifChange(f, t, forward_only=True) for f, t in itertools.permutations("ACTG", 2) if not (f == "T" and t == "G")]
            return NonReversibleDinucleotide(predicates=preds, mprob_model=mp, name=model, recode_gaps=True, model_gaps=False, **kw)
        preds = ["kappa"] if fam == "DINUC" else [MotifChange(x, y) for x, y in GTR_PAIRS_XY]
        return TimeReversibleDinucleotide(predicates=preds, mprob_model=mp, name=model, recode_gaps=True, model_gaps=False, **kw)
    return get_model(model, **kw)


# ---------------------------------------------------------------------------
# L2: rate matrices from the published definitions


def _nuc_rate(model, params, a, b):
    """relative rate r(a->b) for a single-nucleotide change under the nucleotide part of `model`"""
    if model in ("JC69", "F81") or model in PROTEIN:
        return 1.0
    if model.startswith("DINUCGTR"):
        return params.get("/".join(sorted([a, b])), 1.0)
    if model == "DINUCGN_tuple":
        return params.get(f"{a}>{b}", 1.0)
    if model in SOLVED:
        return _nuc_rate(model.split("_")[0], params, a, b)
    if model in ("K80", "HKY85", "MG94HKY", "CNFHKY", "GY94", "Y98", "H04G", "H04GK", "H04GGK") or model in DINUC or model in USERCODON:
        return params["kappa"] if is_transition(a, b) else 1.0
    if model == "TN93":
        if a in PUR and b in PUR:
            return params["kappa_r"]
        if a in PYR and b in PYR:
            return params["kappa_y"]
        return 1.0
    if model in ("GTR", "MG94GTR", "CNFGTR"):
        return params.get("/".join(sorted([a, b])), 1.0)  # G/T is the reference
    if model in ("GN", "GNC"):
        return params.get(f"{a}>{b}", 1.0)  # T>G is the reference
    if model == "ssGN":
        for name, pairs in SSGN_GROUPS.items():
            if (a, b) in pairs:
                return params[name]
        return 1.0  # (A>C | T>G) is the reference
    raise KeyError(model)


def build_Q(model, states, params, mprobs, sm=None, gc=1):
    """calibrated Q (numpy, in `states` order) and the state ('word') probabilities used for calibration.

    mprobs: dict over states, or over monomers for the monomer-frequency models.
    """
    n = len(states)
    kind = kind_of(model)
    wl = len(states[0])
    aa_of = codon_table(gc) if kind == "codon" else None
    if mprob_kind(model) == "monomer":
        mono = mprobs
        wp = np.array([np.prod([mono[ch] for ch in s]) for s in states])
        wp = wp / wp.sum()
    elif mprob_kind(model) == "monomers":
        monos = mprobs["positions"]  # list of dicts, one per position
        wp = np.array([np.prod([monos[p][ch] for p, ch in enumerate(s)]) for s in states])
        wp = wp / wp.sum()
    elif mprob_kind(model) == "fixed-equal":
        wp = np.ones(n) / n
    else:
        wp = np.array([mprobs[s] for s in states], dtype=float)
    Q = np.zeros((n, n))
    if kind == "protein":
        S = np.array(sm._instantaneous_mask_f, dtype=float)  # the published exchangeability table (data, trusted)
        Q = S * wp[None, :]
    else:
        extra = {}
        if model.startswith("H04"):
            # CpG terms: the predicate mask is read from the model (see module docstring)
            for name in ("G", "G.K"):
                if name in params:
                    extra[name] = np.array(sm.predicate_masks[name])
        index = {s: i for i, s in enumerate(states)}
        for i, x in enumerate(states):
            for j, y in enumerate(states):
                if i == j:
                    continue
                diff = [p for p in range(wl) if x[p] != y[p]]
                if len(diff) != 1:
                    continue
                p = diff[0]
                r = _nuc_rate(model, params, x[p], y[p])
                if kind == "codon" and aa_of[x] != aa_of[y]:
                    r *= params["omega"]
                for name, mask in extra.items():
                    if mask[i, j]:
                        r *= params[name]
                # frequency weighting
                if model in NUC_NS or model in ("GNC", "DINUCGN_tuple"):
                    w = 1.0
                elif mprob_kind(model) == "monomer":
                    w = mono[y[p]]
                elif mprob_kind(model) == "monomers":
                    w = monos[p][y[p]]
                elif model in ("CNFHKY", "CNFGTR", "DINUC_conditional", "DINUCGTR_conditional", "CODON_conditional"):
                    ctx = sum(wp[index[s]] for s in states if all(s[q] == y[q] for q in range(wl) if q != p))
                    w = wp[j] / ctx if ctx else 0.0
                else:  # state-frequency models (F81.., GY94, Y98, H04*, DINUC_tuple); conditional == π_j for monomers
                    w = wp[j]
                Q[i, j] = r * w
    Q[np.diag_indices(n)] = 0.0
    Q[np.diag_indices(n)] = -Q.sum(axis=1)
    scale = -(wp * np.diag(Q)).sum()
    return Q / scale, wp


# ---------------------------------------------------------------------------
# L1: pruning


def leaf_vectors(aln, states, kind, motif_len):
    names = list(aln)
    L = len(aln[names[0]]) // motif_len
    out = {}
    for nm in names:
        arr = np.zeros((L, len(states)))
        s = aln[nm]
        for c in range(L):
            idx = compatible_states(s[c * motif_len : (c + 1) * motif_len], states, "protein" if kind == "protein" else "nuc")
            arr[c, idx] = 1.0
        out[nm] = arr
    return out


def prune_columns(tree, leaves, psub, root_probs):
    """per-column likelihoods: root_probs . prod_children P(child) @ partial(child)"""

    def partial(node):
        if not node["children"]:
            return leaves[node["name"]]  # (L, n)
        out = None
        for ch in node["children"]:
            P = psub(ch)  # (n, n) parent state -> child state
            v = partial(ch) @ P.T  # (L, n)
            out = v if out is None else out * v
        return out

    return partial(tree) @ np.asarray(root_probs)


def expm(Q, t):
    from scipy.linalg import expm as _expm

    return _expm(Q * t)


# ---------------------------------------------------------------------------
# problem specification -> real likelihood function


def random_params(rng, model, wide=False):
    lo, hi = (0.05, 20.0) if wide else (0.2, 6.0)
    return {p: round(math.exp(rng.uniform(math.log(lo), math.log(hi))), 5) for p in rate_param_names(model)}


def random_mprobs(rng, model, states):
    mk = mprob_kind(model)
    if mk == "fixed-equal":
        return None
    if mk == "monomers":
        wl = len(states[0])
        return {"positions": [dict(zip("TCAG", [float(x) for x in dirichlet(rng, 4, 0.05)])) for _ in range(wl)]}
    keys = list("TCAG") if mk == "monomer" else list(states)
    low = 0.05 if len(keys) <= 4 else 0.2
    v = dirichlet(rng, len(keys), low)
    return dict(zip(keys, [float(x) for x in v]))


def model_states(model, sm=None, gc=1):
    sm = sm or (make_model(model, gc=gc) if gc != 1 else make_model(model))
    return [str(s) for s in sm.get_alphabet()]


def gen_problem(rng, model, ntips=None, ncols=None, ambig=None, scoped=False, bins=1, expm_setting=None, zero_frac=0.05, rooted=None, polytomy=0.25, hmm=False, tip_scopes=False):
    kind = kind_of(model)
    big = kind in ("codon", "protein")
    ntips = ntips or rng.randint(2, 5 if big else 7)
    tree = random_tree(rng, ntips, polytomy=polytomy, zero_frac=zero_frac, rooted=rooted)
    names = tips(tree)
    ncols = ncols or rng.randint(1, 12 if big else 40)
    ambig = rng.choice([0.0, 0.1, 0.3]) if ambig is None else ambig
    ml = {"nuc": 1, "protein": 1, "codon": 3, "dinuc": 2}[kind]
    gc = 1
    if kind == "codon" and not model.startswith("H04") and rng.random() < 0.35:
        gc = rng.choice([2, 4, 5, 6, 9])  # a non-standard genetic code: different sense codons and synonymy
    aln = random_alignment(rng, names, "codon" if kind == "codon" else ("protein" if kind == "protein" else "nuc"), ncols, ambig, motif_len=ml, gc=gc)
    states = model_states(model, gc=gc)
    prob = {
        "model": model,
        "tree": tree,
        "aln": aln,
        "mprobs": random_mprobs(rng, model, states),
        "params": random_params(rng, model),
        "edge_params": {},
        "bins": bins,
        "expm": expm_setting,
        "gc": gc,
    }
    if scoped and rate_param_names(model):
        # per-edge scopes: some parameter gets different values on disjoint edge groups
        par = rng.choice(rate_param_names(model))
        enames = [e["name"] for e in edges(tree)]
        rng.shuffle(enames)
        k = rng.randint(1, max(1, len(enames) // 2))
        groups = [enames[:k]]
        if len(enames) - k >= 2 and rng.random() < 0.5:
            groups.append(enames[k : k + rng.randint(1, len(enames) - k - 1)])
        prob["edge_params"][par] = [[g, round(math.exp(rng.uniform(math.log(0.2), math.log(6.0))), 5)] for g in groups]
        if tip_scopes and rng.random() < 0.6:
            # the scope is given the other documented way: two tips whose last common ancestor names a node, plus
            # stem / clade flags (default: the clade below the node; stem=True alone: only the edge above it; both: both).
            # The harness works the edge list out on its own tree.
            def under(n):
                return [n["name"]] if not n["children"] else [x for c in n["children"] for x in under(c)]

            def below(n):
                return [x for c in n["children"] for x in [c["name"]] + below(c)]

            cands = [n for n in edges(tree) if len(n["children"]) >= 2]
            if cands:
                n = rng.choice(cands)
                kids = rng.sample(n["children"], 2)
                a, b = rng.choice(under(kids[0])), rng.choice(under(kids[1]))
                outside = [t for t in tips(tree) if t not in under(n)]
                flags = rng.choice([{}, {"stem": True}, {"clade": True}, {"stem": True, "clade": True}, {"stem": False, "clade": True}])
                stem, clade = flags.get("stem", False), flags.get("clade", not flags.get("stem", False))
                g = ([n["name"]] if stem else []) + (below(n) if clade else [])
                if outside and g:
                    how = dict(flags, tip_names=[a, b], outgroup_name=rng.choice(outside))
                    prob["edge_params"][par] = [[g, prob["edge_params"][par][0][1]]]
                    prob["edge_param_how"] = {par: how}
    if bins > 1:
        prob["rate_shape"] = round(rng.uniform(0.2, 3.0), 4)
        if rng.random() < 0.6:  # unequal bin probabilities
            prob["bprobs"] = [float(x) for x in dirichlet(rng, bins, 0.1)]
        if hmm:
            # auto-correlated rate classes along the alignment (sites_independent=False): the bins are grouped into
            # two patches whose sequence along the sites is a Markov chain with switch probability bin_switch
            prob["hmm"] = {"switch": round(rng.choice([1.0, rng.uniform(0.02, 0.98)]), 4)}
    return prob


def moltype_of(model):
    return "protein" if kind_of(model) == "protein" else "dna"


def build_lf(prob, tree_newick=None, aln=None, sm=None):
    """real likelihood function for the problem (the code under observation)"""
    from cogent3 import make_aligned_seqs, make_tree

    model = prob["model"]
    kw = {}
    if prob.get("bins", 1) > 1:
        kw.update(ordered_param="rate", distribution="gamma")
    if prob.get("gc", 1) != 1:
        kw["gc"] = prob["gc"]
    if prob.get("recode_gaps") is False:
        kw["recode_gaps"] = False  # gaps / '?' are then resolved against the word alphabet instead of being rewritten to N
    sm = sm or make_model(model, **kw)
    # zero lengths in a newick string are replaced by default_length (documented), so the tree is given
    # placeholder lengths and every length is then set explicitly
    tree = make_tree(tree_newick or newick(prob["tree"], with_lengths=False))
    lfkw = {}
    if prob.get("bins", 1) > 1:
        lfkw["bins"] = prob.get("bin_names") or prob["bins"]  # a count, or user-chosen bin names in their declared order
        if prob.get("hmm"):
            lfkw["sites_independent"] = False
    if prob.get("expm"):
        lfkw["expm"] = prob["expm"]
    lf = sm.make_likelihood_function(tree, **lfkw)
    if prob.get("early_queries"):
        # queries made before any alignment was given are refused; they must leave nothing behind
        for q in (lambda: lf.reconstruct_ancestral_seqs(), lambda: lf.likely_ancestral_seqs(), lambda: lf.lnL, lambda: lf.get_full_length_likelihoods(), lambda: lf.get_bin_probs()):
            try:
                q()
            except Exception:  # noqa: BLE001 - refusal expected
                pass
    lf.set_alignment(make_aligned_seqs(aln or prob["aln"], moltype=moltype_of(model)))
    if prob.get("mprobs") is not None:
        if "positions" in prob["mprobs"]:
            # position-specific monomer probabilities: one rule per word position
            for i, d in enumerate(prob["mprobs"]["positions"]):
                lf.set_param_rule("psmprobs", value=np.array([d[ch] for ch in lf.model.mprob_model.get_input_alphabet()]), position=str(i), is_constant=True)
        else:
            lf.set_motif_probs(prob["mprobs"])
    if tree_newick is None:
        for e in edges(prob["tree"]):
            lf.set_param_rule("length", edge=e["name"], init=e["length"])
    for p, v in prob["params"].items():
        lf.set_param_rule(p, init=v)
    for p, groups in prob.get("edge_params", {}).items():
        how = prob.get("edge_param_how", {}).get(p)
        for g, v in groups:
            if how:
                lf.set_param_rule(p, init=v, **how)
            else:
                lf.set_param_rule(p, edges=list(g), init=v)
    if prob.get("bins", 1) > 1:
        lf.set_param_rule("rate_shape", init=prob["rate_shape"])
        if prob.get("bprobs"):
            lf.set_param_rule("bprobs", init=np.array(prob["bprobs"]))
        if prob.get("hmm"):
            lf.set_param_rule("bin_switch", init=prob["hmm"]["switch"])
    return lf


def gamma_bin_rates(shape, bprobs):
    """discrete gamma (mean 1, shape = rate = `shape`): bin k holds the probability mass bprobs[k] of the distribution,
    in increasing order of rate, and is represented by the median of its slice (the quantile at the slice's midpoint);
    the representatives are scaled so that their bprobs-weighted mean is exactly one"""
    from scipy.stats import gamma

    w = np.asarray(bprobs, dtype=float)
    w = w / w.sum()
    mid = np.add.accumulate(w) - w / 2
    med = gamma.ppf(mid, a=shape, scale=1.0 / shape)
    return med / (med * w).sum()


def hmm_forward_lnL(per_bin_cols, bprobs, switch):
    """log-likelihood of the two-patch phylo-HMM: bins are split into a first and second half (the patches); the patch
    of a site follows a Markov chain with stationary probabilities p_k = sum of bprobs in patch k and transition
    matrix T = (1-s) I + s 1 p^T; given the patch the bin is drawn with probability bprob_b / p_k.
    per_bin_cols: array (bins, sites) of ordinary column likelihoods per bin."""
    per_bin_cols = np.asarray(per_bin_cols, dtype=float)
    bprobs = np.asarray(bprobs, dtype=float)
    nb = len(bprobs)
    half = nb // 2
    patch = np.array([0] * half + [1] * (nb - half))
    p = np.array([bprobs[patch == k].sum() for k in (0, 1)])
    emit = np.array([(bprobs[patch == k] / p[k]) @ per_bin_cols[patch == k] for k in (0, 1)])  # (2, sites)
    T = (1 - switch) * np.eye(2) + switch * np.outer(np.ones(2), p)
    f = p * emit[:, 0]
    lnL = 0.0
    for k in range(1, emit.shape[1]):
        c = f.sum()
        if c <= 0:
            return float("-inf")
        lnL += math.log(c)
        f = ((f / c) @ T) * emit[:, k]
    c = f.sum()
    return lnL + (math.log(c) if c > 0 else float("-inf"))


def edge_param_values(prob, edge_name):
    vals = dict(prob["params"])
    for p, groups in prob.get("edge_params", {}).items():
        for g, v in groups:
            if edge_name in g:
                vals[p] = v
    return vals


def has_ambiguity(prob):
    amb = "BZX-?" if kind_of(prob["model"]) == "protein" else "RYWSKMBDHVN-?"
    return any(ch in amb for s in prob["aln"].values() for ch in s)


def sig_of(prob):
    return (
        prob["model"],
        shape_class(prob["tree"]),
        "scoped" if prob.get("edge_params") else "global",
        f"bins{prob.get('bins', 1)}",
        "ambig" if has_ambiguity(prob) else "clean",
    )
